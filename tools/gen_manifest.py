#!/usr/bin/env python3
"""Writes /verif/MANIFEST.json from the table below (one entry per claimed property)."""
import json
import os

VERIF = os.path.dirname(os.path.dirname(os.path.abspath(__file__)))

ENGINE = "coq-proof+correspondence"
COMMON_NOTE = ("trusted: Coq 8.16.1 kernel + vm_compute (no native_compute); axioms reported by Print Assumptions "
               "(real-number axioms sig_forall_dec, functional_extensionality_dep, classic where listed in evidence); "
               "translator plug-ins (translator/*.py) and the correspondence harness; exact rational model, float rounding "
               "of coefficient arithmetic outside the model; ")

CLAIMS = {
    "C06": dict(
        text="Coq theorems: for every finite DSL tree, every inner-product space and valuation, the dictionary computed by "
             "the modelled operator overloads denotes the tree's mathematical meaning; comparisons yield left-minus-right "
             "with the written sense; key uniqueness preserved. The model (Model/Dict.v, Model/Terms.v) is tied to PEPit's "
             "operators by exact differential comparison on seeded random trees.",
        ref="DESIGN.md 5.6",
        note="hand-written model tied by correspondence; no-mutation and operand-kind clauses are tested on the "
             "implementation, not proved",
        technique="Coq proof (induction over DSL trees) + model/implementation correspondence"),
    "C01": dict(
        text="Coq theorems: for every interleaving of scalar constraints and LMIs of any sizes the cvxpy emission / dual "
             "recovery / assignment maps the k-th tracked item to its own main dual (entry equalities skipped, nothing "
             "dropped or shifted); under the solver assumption (constant Lagrangian = KKT stationarity, Spec/KKT.v) and "
             "LMIs symmetric as written the exposed multipliers satisfy the certificate identity for all symmetric G and all "
             "F and the proof reconstruction returns exactly its constant tau; identity + signs + PSD multipliers imply "
             "objective <= tau on the feasible set; for an LMI not symmetric as written the statement is refuted with a "
             "witness (known finding F-C01a, replayed on the real code). Tie: real emission, recovery, assignment and "
             "check_feasibility run on scripted position-tagged duals and compared exactly with the model; real SCS solves "
             "measure the solver assumption.",
        ref="DESIGN.md 5.1",
        note="solver returns stationarity-satisfying duals (assumed; residual measured each run); PSD multipliers as rank-one "
             "sums, primal matrices as quadratic-form PSD; MOSEK side is C11; tolerance propagation not mechanised",
        technique="Coq proof (induction over sent lists; algebra over reals) + scripted-dual correspondence"),
    "C14": dict(
        text="Coq theorems over the post-solve event list REGENERATED from PEP._solve_with_wrapper: duals are assigned exactly "
             "once, from the first solve, before any heuristic event, and dual mode returns the reconstruction from those "
             "duals for every heuristic string / iteration count / solver answer; the heuristic problem's feasible set is the "
             "original one intersected with objective >= wc - tol, so any returned instance satisfies the declared model; "
             "trace does not increase (given solver optimality); option strings dispatch as documented. Tie: translator + "
             "scripted-solver correspondence of wrapper calls and cvxpy problems before/after the heuristic; real SCS pairs.",
        ref="DESIGN.md 5.14",
        note="solver optimality for the trace clause is an explicit hypothesis; eigenvalue thresholding and matrix inverse "
             "are numpy (they only influence W and printed diagnostics); MOSEK side inherits F-C11b",
        technique="Coq proof over a plan regenerated from the source + scripted-solver correspondence"),
    "C05": dict(
        text="Coq theorems: for every expression dictionary with unique keys, every symmetric G and every F the dense "
             "(cvxpy) data and the sparse lower-triangular triples (MOSEK storage reading) denote exactly the expression's "
             "affine function of (G,F), and agree with each other; for every declared model the GENERATED solve plan "
             "(translated from PEP._solve_with_wrapper on every run) sends metric rows ++ problem constraints ++ problem LMIs "
             "++ per leaf function class constraints/LMIs ++ per function own constraints/LMIs ++ partition constraints, "
             "each with its declared multiplicity and sense and nothing else; max of tau under tau<=m_k is the min of "
             "metrics. Ties: translator (collection order) + exact correspondence on the two translation functions, on "
             "recorded send sequences of random programs and on the rows of the real cvxpy problem.",
        ref="DESIGN.md 5.5",
        note="MOSEK's symmetric-storage reading of triples is an assumption (shared with C11); cvxpy's own "
             "canonicalisation is trusted",
        technique="Coq proof (induction over dictionaries / declared models, over a plan regenerated from the source) + "
                  "model/implementation correspondence"),
    "C11": dict(
        text="Coq theorems over an executable model of the 21 MOSEK Task calls PEPit issues: under an explicit decidable "
             "guard the task denotes exactly the declared SDP (rows, bounds, LMI coupling weights, objective), the "
             "heuristic modifications commute, and the triple (y, -barsj(k), -barsj(0)) read back satisfies the same "
             "certificate identity as the cvxpy path; each guard conjunct that excludes a real defect has a _refuted "
             "theorem with a witness replayed on the real wrapper. Tie: exact comparison of the real MosekWrapper's call "
             "log (running on a recording stand-in mosek module) with the model, end-to-end cvxpy-vs-mosek(stand-in) solves.",
        ref="DESIGN.md 5.11",
        note="MOSEK is not installed: its Optimizer-API semantics and dual sign convention are assumptions encoded in "
             "Model/Mosek.v and harness/standin/mosek (derived from MOSEK's documented primal/dual pair and the signs "
             "pinned by tests/test_wrappers.py); four known findings F-C11a-d (KNOWN-FINDING lines)",
        technique="Coq proof (induction over sent lists; refutation witnesses by vm_compute) + call-log correspondence "
                  "through a stand-in MOSEK module"),
    "C15": dict(
        text="Coq theorems for every number of blocks, every point dictionary, every history of get_block calls, every "
             "inner-product space and valuation: blocks sum back, second call is idempotent, one block is the identity, the "
             "solve-time list is exactly the cross-block orthogonality relations (all, none extra), real coordinate "
             "projections of R^n satisfy everything generated. Model (Model/Blocks.v) tied to block_partition.py by exact "
             "correspondence on seeded scenarios incl. the solve-time loop.",
        ref="DESIGN.md 5.15",
        note="object identity represented by harness object numbers; C15_block_smooth is C03's BlockSmoothConvex theorem",
        technique="Coq proof (induction over call histories; R^n masks) + model/implementation correspondence"),
    "C09": dict(
        text="Coq theorems: running any well-formed recorded method (any length) in any world of real oracles makes every "
             "recorded sample genuine and never changes free leaves; with C03 (genuine samples satisfy all class constraints) "
             "and C01's weak duality this bounds every real run by the returned value. Tie: oracle-recording model vs. "
             "Function.oracle (exact); validation: sources of the shipped examples re-executed on real members of the "
             "declared classes and compared with PEPit's value.",
        ref="DESIGN.md 5.9",
        note="conditional on the solver assumption of C01; class definitions of Spec/Classes.v; the example-code = "
             "documented-method link is informal; the numerical re-execution is search/validation, not proof",
        technique="Coq proof (induction over programs; composition of C03/C01 theorems) + correspondence + example re-execution"),
}

NOT_APPLICABLE = {
    "C10": "parametric SDP optimum vs. published closed forms: no executable model a Coq theorem could quantify over "
           "(DESIGN.md 5.10)",
}


def main():
    props = [json.loads(l)["id"] for l in open(os.path.join(VERIF, "properties.jsonl"))]
    checks = []
    for pid in props:
        if pid not in CLAIMS:
            continue
        c = CLAIMS[pid]
        checks.append(dict(
            property_id=pid,
            quick_cmd="./check %s --tier quick" % pid,
            thorough_cmd="./check %s --tier thorough" % pid,
            evidence_file="/verif/evidence/%s.json" % pid,
            replay_cmd_template="./check replay {path}",
            engine=ENGINE,
            level_claimed=dict(category="proof", text=c["text"], design_ref=c["ref"]),
            level_note=COMMON_NOTE + c["note"],
            technique=c["technique"]))
    na = dict(NOT_APPLICABLE)
    for pid in props:
        if pid not in CLAIMS and pid not in na:
            na[pid] = "check under construction in this round (not yet claimed); see DESIGN.md section 8"
    manifest = dict(
        version=1,
        setup_cmd="./check setup",
        hooks=dict(
            guard="PEPIT_VERIF",
            enable="no hook in /repo is needed: recording is done from outside (wrapper registry, stand-in modules on the "
                   "harness' sys.path); the checks set PEPIT_VERIF=1 but PEPit does not read it",
            baseline_off_cmd="cd /repo && /venv/bin/python -m pytest -ra -q -p no:cacheprovider --timeout=900 "
                             "--continue-on-collection-errors",
            source_commits=[],
            add_only=True),
        engines=[dict(name=ENGINE, path="/verif/check", serves_properties=sorted(CLAIMS),
                      kind_free_text="Coq 8.16.1 theorems over an executable Gallina model of PEPit; model tied to /repo by "
                                     "regenerating Python-ast translators and by differential correspondence checks (model "
                                     "evaluated by vm_compute)")],
        checks=checks,
        notes="see DESIGN.md; genuine defects repaired by fix: commits or listed in KNOWN_FINDINGS.json / known_findings.d",
        not_applicable=[dict(property_id=k, reason=v) for k, v in sorted(na.items())])
    with open(os.path.join(VERIF, "MANIFEST.json"), "w") as f:
        json.dump(manifest, f, indent=1)
    print("MANIFEST.json: %d checks, %d not applicable" % (len(checks), len(na)))


if __name__ == "__main__":
    main()
