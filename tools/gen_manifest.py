#!/usr/bin/env python3
"""Writes /verif/MANIFEST.json from the table below (one entry per claimed property)."""
import json
import os

VERIF = os.path.dirname(os.path.dirname(os.path.abspath(__file__)))

ENGINE = "coq-proof+correspondence"
COMMON_NOTE = ("trusted: Coq 8.16.1 kernel + vm_compute (no native_compute); axioms reported by Print Assumptions "
               "(real-number axioms sig_forall_dec, functional_extensionality_dep, classic where listed in evidence); "
               "translator plug-ins (translator/*.py) and the correspondence harness; exact rational model, float rounding "
               "of coefficient arithmetic outside the model; ")

CLAIMS = {
    "C06": dict(
        text="Coq theorems: for every finite DSL tree, every inner-product space and valuation, the dictionary computed by "
             "the modelled operator overloads denotes the tree's mathematical meaning; comparisons yield left-minus-right "
             "with the written sense; key uniqueness preserved. The model (Model/Dict.v, Model/Terms.v) is tied to PEPit's "
             "operators by exact differential comparison on seeded random trees.",
        ref="DESIGN.md 5.6",
        note="hand-written model tied by correspondence; the no-mutation clause is a generated obligation over the source "
             "(translator/tr_purity.py -> Gen/Purity.v, C06_operators_do_not_write_operands: conservative alias analysis of every "
             "operator method, the constructors and the dictionary helpers, fail-closed) and is also tested, containers handed to "
             "PSDMatrix included; the operand-kind clause is tested on the implementation (exhaustive table), not proved",
        technique="Coq proof (induction over DSL trees) + model/implementation correspondence"),
    "C01": dict(
        text="Coq theorems: for every interleaving of scalar constraints and LMIs of any sizes the cvxpy emission / dual "
             "recovery / assignment maps the k-th tracked item to its own main dual and each LMI to its own n*n entry "
             "multipliers (nothing dropped, duplicated or shifted); under the solver assumption (constant Lagrangian = KKT "
             "stationarity, Spec/KKT.v), for every declared model whose tracked objects are sent once -- LMIs symmetric as "
             "written or not -- the exposed multipliers satisfy the certificate identity for all symmetric G and all F and "
             "the proof reconstruction returns exactly its constant tau; the reported dual matrix is the symmetric part of "
             "the entry multipliers; identity + signs + PSD multipliers imply objective <= tau on the feasible set; the "
             "formula used before the repair of F-C01a (/repo bd99691) is kept and refuted as a regression; up to solver "
             "tolerance: with NO solver assumption the reconstruction satisfies objective = fd + sum multiplier x constraint "
             "- <residual,G> (fd = returned constant + remaining terms), and multipliers dual feasible only up to eps give "
             "objective <= fd + eps x (l1 size of the constrained quantities) on the feasible set. Tie: real "
             "emission, recovery, assignment and check_feasibility run on scripted position-tagged duals (duplicated "
             "objects, second solves, class LMIs not symmetric as written) and compared exactly with the model; real SCS "
             "solves measure the solver assumption.",
        ref="DESIGN.md 5.1",
        note="solver returns stationarity-satisfying duals (assumed; residual measured each run); PSD multipliers as rank-one "
             "sums, primal matrices as quadratic-form PSD; MOSEK side is C11; tolerance propagation mechanised as C01_reconstruction_unconditional / C01_weak_duality_tolerance (exact rational duals, inexact KKT), float rounding of PEPit's own arithmetic is not",
        technique="Coq proof (induction over sent lists; algebra over reals) + scripted-dual correspondence"),
    "C14": dict(
        text="Coq theorems over the post-solve event list REGENERATED from PEP._solve_with_wrapper: duals are assigned exactly "
             "once, from the first solve, before any heuristic event, and dual mode returns the reconstruction from those "
             "duals for every heuristic string / iteration count / solver answer; the heuristic problem's feasible set is the "
             "original one intersected with objective >= wc - tol, so any returned instance satisfies the declared model; "
             "trace does not increase (given solver optimality); option strings dispatch as documented. Tie: translator + "
             "scripted-solver correspondence of wrapper calls and cvxpy problems before/after the heuristic; real SCS pairs.",
        ref="DESIGN.md 5.14",
        note="the public entry PEP.solve is regenerated too (translator/tr_entry.py -> Gen/Entry.v): every option reaches "
             "_solve_with_wrapper unchanged under its own name with equal constant defaults (C14_options_travel_unchanged); "
             "solver optimality for the trace clause is an explicit hypothesis; eigenvalue thresholding and matrix inverse "
             "are numpy (they only influence W and printed diagnostics); MOSEK side inherits F-C11b",
        technique="Coq proof over a plan regenerated from the source + scripted-solver correspondence"),
    "C02": dict(
        text="Coq theorems: for every object store with empty or coherent caches and every solution, the value returned by "
             "the modelled eval of a derived point / expression / constraint / LMI is the same linear / bilinear combination "
             "of its operands' values (objects built after the solve included); if the leaf vectors reproduce G+ the value is "
             "the Gram reading the solver saw; leaf i gets column i / entry i; at a point optimal in tau the objective equals "
             "the smallest metric; from the SPECIFICATIONS of numpy's eigh and qr, for the factorisation plan regenerated from pep.py, the "
             "columns of the evaluated leaf points have the inner products of the PSD projection of G (C02_factor_reproduces_projection, "
             "C02_projection_psd, _is_identity_on_psd, _error_bound). (The former finding F-C02a - eval after a new leaf point raised - was repaired by a fix: commit; "
             "the narrow remainder F-C02b, the dimension of the EMPTY combination, is a listed finding.) Tie: random programs run on the real code with an injected rational solution "
             "(fake wrapper registered from outside), values compared with the model; real SCS instances measured.",
        ref="DESIGN.md 5.2",
        note="numpy eigh / QR meet their specifications up to rounding: trusted and measured (P^T P vs G+); solver optimality is an explicit hypothesis "
             "of the objective clause; primal <= dual is C01's weak duality",
        technique="Coq proof (induction over decompositions; refutation witness) + injected-solution correspondence"),
    "C03": dict(
        text="Coq theorems, one per shipped class (24) plus a coverage table proved equal to the list of translated classes: "
             "for every inner-product space, every real member of the class (first-principles definitions, Spec/Classes.v) "
             "with parameters in the documented range, every recorded state whose samples - any number, any order, "
             "repetitions, stationary and fixed points - are genuine samples of the member under a valuation, EVERY scalar "
             "constraint generated by the plan REGENERATED from the sources holds and EVERY class LMI is symmetric PSD. The "
             "proof goes: generated item -> samples (ClassGen lemmas) -> operator semantics (C06) -> formula = reference "
             "condition (FormulaEq, over the regenerated formula) -> member lemma. Tie: translator + exact correspondence of "
             "set_class_constraints() on all 24 classes + real numerical members recorded through the real API. The failing-input search includes non-gradient members on the boundary of the operator classes (scaled rotations, membership proved in Coq).",
        ref="DESIGN.md 5.3",
        note="class membership definitions are hand-written specifications; three textbook equivalences (Lipschitz gradient "
             "<-> two-sided quadratic bound, subdifferential of a support function, Pazy) are trusted; RsiEb under the "
             "one-stationary-point guard; block-smooth takes orthogonal block projections as hypothesis (C15); L = inf for "
             "smooth classes outside the claim; a merely weakened coefficient also breaks these proofs",
        technique="Coq proof over formulas/plans regenerated from the source (real analysis + list induction) + "
                  "correspondence + real-member search"),
    "C04": dict(
        text="Coq theorems: the pair generator produces a constraint for exactly the required pairs, each once (all ordered "
             "distinct pairs, or unordered pairs under the symmetry flag; every formula used with the flag is proved "
             "symmetric, so halving loses nothing); each of the 41 formulas REGENERATED from the sources denotes exactly the "
             "literature's reference condition; for every shipped plan the generated set is equivalent to the documented "
             "conditions on all required pairs, and is invariant under permutations of the recorded samples (LMIs up to "
             "congruence); sufficiency (every data set satisfying the conditions is interpolated by a real member) is proved for "
             "Convex, StronglyConvex, ConvexLipschitz, ConvexIndicator, ConvexSupport and the graph-defined operator classes. "
             "Refuted with a witness where PEPit is wrong: skew-symmetric diagonal conditions (F-C04b). Tie: translator + exact correspondence of set_class_constraints() on "
             "all 24 classes and of the two generic generators on arbitrary list pairs.",
        ref="DESIGN.md 5.4",
        note="sufficiency for the smooth classes, QG, RSI/EB, quadratics and linear operators is the cited literature, not "
             "proved: that half of the property is partial",
        technique="Coq proof over formulas/plans regenerated from the source + model/implementation correspondence"),
    "C07": dict(
        text="Coq theorems: an invariant (one value per point; one gradient per point for differentiable functions; every "
             "composite sample is the weighted sum of samples recorded at that point for its terms, under every valuation; "
             "stationary points have zero total gradient; lookup identifies exactly equal decompositions; reuse flag = "
             "conjunction) holds initially and is preserved by every oracle / gradient / value / stationary / fixed-point / "
             "add_point / combine operation, hence after every op sequence, under a decidable guard (no zero weight after "
             "merging, i.e. the composite is not the zero function, no explicit zero coefficient in a query point; cancelling "
             "weights are covered since the fix: commit 5162ea4); without the guard it is refuted with witnesses (findings "
             "F-C07b,c,d,e); every primitive-step program is a sequence of these operations and preserves the invariant on leaf and "
             "composite functions (C07_inv_step_program). Tie: exhaustive short and random long op sequences compared exactly with the model. The shipped class constructors are tied to the model's reuse rule (forced flags regenerated from the sources in Gen/Classes.v); query points are terms compiled by the Point-algebra model and the tie checks on every call that the implementation's decomposition is that normal form.",
        ref="DESIGN.md 5.7",
        note="object aliasing is not observable in the dumps (only mutation is the idempotent prune); steps call add_point "
             "on not-yet-recorded points (scoping guard)",
        technique="Coq proof (invariant by induction over operation sequences; refutation witnesses) + correspondence"),
    "C12": dict(
        text="Coq theorems over lists REGENERATED from the sources on every run: every class-level counter / registry written "
             "anywhere in PEPit is reset to its fresh-interpreter value by PEP._reset_classes, which is the first statement of "
             "PEP.__init__ (totality, finite check lifted to a forall); in the model of the global-state machine, for ALL "
             "states s, s' and ALL programs starting with PEP(), outputs and final globals coincide (non-interference by "
             "induction); every use of `verbose` is print-only or forwarded, so the sent data cannot depend on it; the only "
             "residual state are the module-level null objects, whose stale eval cache (F-C12a) provably cannot reach the "
             "solver input. Tie: translators + byte-identical comparison of recorded solver input, fresh interpreter vs. "
             "after random histories (solved / failed / abandoned / raising models), verbose 0/1/2.",
        ref="DESIGN.md 5.12",
        note="every read of the module-level null objects inside PEPit is regenerated and must be an accumulator start or an "
             "operand (C12_null_objects_do_not_escape); the step from equal class-level state to equal solver input for full programs rests on the history stream "
             "(the pipeline itself is C05/C06/C07)",
        technique="Coq proof (finite generated obligations + non-interference by induction) + history correspondence"),
    "C16": dict(
        text="Coq theorems over accessor shapes REGENERATED from the sources (guards, raised exception classes, try/except "
             "matcher kinds, post-solve order): for every point / expression / constraint / LMI of any depth with an unvalued "
             "reachable leaf, eval raises ValueError and nothing else, eval_dual without a dual raises ValueError; when the "
             "wrapper reports no value, solve returns None and writes no value and no dual; invalid option strings end in "
             "ValueError. Tie: translator + malformed stream (every accessor on every object kind in 7 states, unbounded and "
             "infeasible models, invalid options) compared with the model's predicted outcome class.",
        ref="DESIGN.md 5.16",
        note="PEP.solve forwards the option strings unchanged to the dispatches (C16_options_reach_dispatch, plan regenerated by "
             "translator/tr_entry.py); only the class of an outcome is modelled; F-C16b (= F-C11d: the MOSEK path returns a number for infeasible / "
             "unbounded models) observed on the stand-in only",
        technique="Coq proof over handler shapes regenerated from the source + malformed-input correspondence"),
    "C13": dict(
        text="Coq theorems for every op sequence (edits, solves, failed solves, evaluations): what the k-th solve sends is a "
             "function of the declared model and the fresh objective index only; the amount of data sent does not grow with "
             "the number of solves (class LMIs and partition constraints included, after the two fix: commits); after a "
             "finite solve every object without an older cache evaluates to the latest solution; sent item k carries dual k; "
             "own constraints / LMIs of leaf and composite functions and heuristic solves are part of the model. "
             "Refuted with witnesses: stale caches (F-C13a), values surviving a failed solve (F-C13d). Tie: programs with 2-4 "
             "solves and edits run on the real code with injected solutions, compared with the model; real SCS re-solves.",
        ref="DESIGN.md 5.13",
        note="what a class / partition generates is input data here (C03/C04/C15); the extra objective leaf per solve is "
             "reported as behaviour",
        technique="Coq proof (induction over op sequences; refutation witnesses) + injected-solution correspondence"),
    "C17": dict(
        text="Coq theorems: for every plan item and all sample lists the table stored under the condition name has one row / "
             "column per sample, the cell (i,j) holds exactly the constraint generated for that ordered pair (the same object "
             "that is in the class-constraint list), 0 elsewhere; the dual table mirrors it cell by cell; names contain "
             "function id and condition and determine the pair for unnamed samples; block-smooth per-block tables likewise "
             "(after the fix: commits, also for the block-smooth and linear-operator classes, unguarded). Tie: "
             "exact correspondence of tables, labels, names and get_class_constraints_duals() with position-tagged duals. An end-to-end stream goes through the real solve path (scripted wrapper, both return modes, heuristics, vacuous conditions) and reads every dual table back against the send positions.",
        ref="DESIGN.md 5.17",
        note="name injectivity proved for unnamed points only (user names may collide)",
        technique="Coq proof (lists of any length) + model/implementation correspondence"),
    "C05": dict(
        text="Coq theorems: for every expression dictionary with unique keys, every symmetric G and every F the dense "
             "(cvxpy) data and the sparse lower-triangular triples (MOSEK storage reading) denote exactly the expression's "
             "affine function of (G,F), and agree with each other; for every declared model the GENERATED solve plan "
             "(translated from PEP._solve_with_wrapper on every run) sends metric rows ++ problem constraints ++ problem LMIs "
             "++ per leaf function class constraints/LMIs ++ per function own constraints/LMIs ++ partition constraints, "
             "each with its declared multiplicity and sense and nothing else; max of tau under tau<=m_k is the min of "
             "metrics. Ties: translator (collection order) + exact correspondence on the two translation functions, on "
             "recorded send sequences of random programs and on the rows of the real cvxpy problem; the MOSEK emission (Task calls of the "
             "real MosekWrapper on a recording stand-in) is compared with Model/Mosek.v, whose calls denote the declared SDP "
             "(C05_mosek_task_is_declared_sdp, C05_mosek_rows_meaning = C11's theorems).",
        ref="DESIGN.md 5.5",
        note="MOSEK's symmetric-storage reading of triples is an assumption (shared with C11); cvxpy's own "
             "canonicalisation is trusted",
        technique="Coq proof (induction over dictionaries / declared models, over a plan regenerated from the source) + "
                  "model/implementation correspondence"),
    "C11": dict(
        text="Coq theorems over an executable model of the 21 MOSEK Task calls PEPit issues: under an explicit decidable "
             "well-formedness guard (no conjunct excludes a defect any more: three defects were repaired by fix: commits) the "
             "task denotes exactly the declared SDP (rows, bounds, LMI coupling weights, objective), the heuristic "
             "modifications commute, and the triple (y, -barsj(k), -barsj(0)) read back satisfies the same certificate "
             "identity as the cvxpy path; the ignored problem status (F-C11d) is refuted with a witness. Tie: exact comparison of the real MosekWrapper's call "
             "log (running on a recording stand-in mosek module) with the model, end-to-end cvxpy-vs-mosek(stand-in) solves.",
        ref="DESIGN.md 5.11",
        note="MOSEK is not installed: its Optimizer-API semantics and dual sign convention are assumptions encoded in "
             "Model/Mosek.v and harness/standin/mosek (derived from MOSEK's documented primal/dual pair and the signs "
             "pinned by tests/test_wrappers.py); one open finding F-C11d",
        technique="Coq proof (induction over sent lists; refutation witnesses by vm_compute) + call-log correspondence "
                  "through a stand-in MOSEK module"),
    "C15": dict(
        text="Coq theorems for every number of blocks, every point dictionary, every history of get_block calls, every "
             "inner-product space and valuation: blocks sum back, second call is idempotent, one block is the identity, the "
             "solve-time list is exactly the cross-block orthogonality relations (all, none extra), real coordinate "
             "projections of R^n satisfy everything generated. Model (Model/Blocks.v) tied to block_partition.py by exact "
             "correspondence on seeded scenarios incl. the solve-time loop. At solve time the constraints sent are exactly those of all registered partitions (several partitions, one-block / unused / constructor-built ones, decomposed temporaries collected before the solve).",
        ref="DESIGN.md 5.15",
        note="object identity represented by harness object numbers; C15_block_smooth is C03's BlockSmoothConvex theorem",
        technique="Coq proof (induction over call histories; R^n masks) + model/implementation correspondence"),
    "C08": dict(
        text="Coq theorems over the 8 primitive steps TRANSLATED from the sources on every run (one straight-line program per "
             "option): for every start point, step size, accuracy, function and state the returned tuple, fresh leaves, "
             "recorded samples (and the function they go to), side constraints and frame are exactly the hand-written "
             "specification of the documented relation, in both directions (nothing stronger or weaker); real executions "
             "(prox of a convex function, inexact gradient, exact line search of a differentiable function, linear "
             "minimisation over a set, Bregman steps, epsilon-subgradient under conjugate attainment) satisfy what is "
             "recorded, and conversely; the same generated programs run over C07's function table (Model/StepsFunc.v): every step, every "
             "option, on ANY function (leaf or weighted sum) preserves C07's invariant, the sample recorded on a composite is the "
             "weighted sum of samples of its terms, and on leaf functions both interpreters agree. Tie: translator + exact "
             "correspondence of real step calls (on leaf and on composite functions) with the interpreters.",
        ref="DESIGN.md 5.8",
        note="the documented-relation (_records/_exact/_real) theorems are over leaf functions and transfer to composites through the "
             "agreement + weighted-sum theorems under the decidable guard ok_prog (C07's side conditions); real=>recorded for "
             "epsilon-subgradient / inexact prox is conditional on conjugate attainment (partial); functions on E are assumed "
             "to respect veq",
        technique="Coq proof over programs regenerated from the source (symbolic execution + real analysis lemmas) + "
                  "correspondence"),
    "C09": dict(
        text="Coq theorems: running any well-formed recorded method - free points, stationary points, oracle calls and all eight "
             "primitive steps (proximal, linear-optimisation, inexact-gradient, line-search, epsilon-subgradient, Bregman gradient, "
             "Bregman proximal, inexact proximal with its three options), any length - in any world of real oracles makes "
             "every recorded sample genuine, every recorded step constraint true, and never changes free leaves; composed with "
             "C03 over the class plans REGENERATED from the sources (22 classes) every generated class constraint holds at the "
             "run's values; the Gram matrix of a real valuation is a feasible point, so with C01's weak duality every real run "
             "is bounded by the certified value. Tie: recording model vs. the real oracle / step calls (exact); every shipped "
             "example traced on the real PEPit and, when inside the op language (49 of 83), compared exactly with mrun of its "
             "program (the other 34 - composite functions, fixed_point, block partitions, a step at an evaluated point - are "
             "listed, not covered by the run model); validation: "
             "sources of the shipped examples re-executed on adversarially tuned real members and compared with PEPit's value.",
        ref="DESIGN.md 5.9",
        note="conditional on the solver assumption of C01; class definitions of Spec/Classes.v; the example-code = "
             "documented-method link is informal; the numerical re-execution is search/validation, not proof",
        technique="Coq proof (induction over programs; composition of C03/C01 theorems) + correspondence + example re-execution"),
}

NOT_APPLICABLE = {
    "C10": "parametric SDP optimum vs. published closed forms: no executable model a Coq theorem could quantify over "
           "(DESIGN.md 5.10)",
}


def main():
    props = [json.loads(l)["id"] for l in open(os.path.join(VERIF, "properties.jsonl"))]
    checks = []
    for pid in props:
        if pid not in CLAIMS:
            continue
        c = CLAIMS[pid]
        checks.append(dict(
            property_id=pid,
            quick_cmd="./check %s --tier quick" % pid,
            thorough_cmd="./check %s --tier thorough" % pid,
            evidence_file="/verif/evidence/%s.json" % pid,
            replay_cmd_template="./check replay {path}",
            engine=ENGINE,
            level_claimed=dict(category="proof", text=c["text"], design_ref=c["ref"]),
            level_note=COMMON_NOTE + c["note"],
            technique=c["technique"]))
    na = dict(NOT_APPLICABLE)
    for pid in props:
        if pid not in CLAIMS and pid not in na:
            na[pid] = "check under construction in this round (not yet claimed); see DESIGN.md section 8"
    manifest = dict(
        version=1,
        setup_cmd="./check setup",
        hooks=dict(
            guard="PEPIT_VERIF",
            enable="no hook in /repo is needed: recording is done from outside (wrapper registry, stand-in modules on the "
                   "harness' sys.path); the checks set PEPIT_VERIF=1 but PEPit does not read it",
            baseline_off_cmd="cd /repo && /venv/bin/python -m pytest -ra -q -p no:cacheprovider --timeout=900 "
                             "--continue-on-collection-errors",
            source_commits=[],
            add_only=True),
        engines=[dict(name=ENGINE, path="/verif/check", serves_properties=sorted(CLAIMS),
                      kind_free_text="Coq 8.16.1 theorems over an executable Gallina model of PEPit; model tied to /repo by "
                                     "regenerating Python-ast translators and by differential correspondence checks (model "
                                     "evaluated by vm_compute)")],
        checks=checks,
        notes="see DESIGN.md; genuine defects repaired by fix: commits or listed in KNOWN_FINDINGS.json / known_findings.d",
        not_applicable=[dict(property_id=k, reason=v) for k, v in sorted(na.items())])
    with open(os.path.join(VERIF, "MANIFEST.json"), "w") as f:
        json.dump(manifest, f, indent=1)
    print("MANIFEST.json: %d checks, %d not applicable" % (len(checks), len(na)))


if __name__ == "__main__":
    main()
