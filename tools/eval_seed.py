#!/usr/bin/env python3
"""tools/eval_seed.py <seed dir name, e.g. C06-1> [<Cxx> ...]

Runs the quick checks of the given properties (default: the seed's own property) against a scratch worktree of
/repo with the seed's patch applied, from a private copy of /verif, and records in the seed's meta.json which
checks raised a VIOLATION (and with which replay kind).  /repo itself is never touched."""
import json
import os
import re
import shutil
import subprocess
import sys
import time

VERIF = os.path.dirname(os.path.dirname(os.path.abspath(__file__)))


def main():
    name = sys.argv[1]
    d = os.path.join(VERIF, "seeded", name)
    meta = json.load(open(os.path.join(d, "meta.json")))
    pids = sys.argv[2:] or [meta["property"]]
    tag = "ev_%d" % os.getpid()
    wt, vc = "/tmp/%s_repo" % tag, "/tmp/%s_verif" % tag
    subprocess.run(["git", "-C", "/repo", "worktree", "add", "-f", wt, "HEAD"], capture_output=True, check=True)
    try:
        subprocess.run(["git", "-C", wt, "apply", os.path.join(d, "patch.diff")], check=True)
        subprocess.run(["rsync", "-a", "--exclude", "work", "--exclude", ".git", "--exclude", "replays", "--exclude",
                        "*.vok", "--exclude", "*.vos", "--exclude", "*.glob", VERIF + "/", vc + "/"], check=True)
        os.makedirs(os.path.join(vc, "replays"), exist_ok=True)
        for pid in pids:
            t0 = time.time()
            env = dict(os.environ, PEPIT_REPO=wt)
            p = subprocess.run(["./check", pid, "--tier", "quick"], cwd=vc, env=env, capture_output=True, text=True,
                               timeout=2400)
            out = p.stdout + p.stderr
            viol = re.findall(r"^VIOLATION property=\S+ replay=(\S+)(.*)$", out, re.M)
            kinds = []
            for path, rest in viol:
                try:
                    r = json.load(open(path))
                    kinds.append(r.get("kind") or (r.get("broken") or [{}])[0].get("what") or "violation")
                except Exception:
                    kinds.append("violation")
            meta.setdefault("checks", {})[pid] = dict(
                caught=bool(viol), exit_code=p.returncode, replay_kinds=kinds,
                no_failing_input_found=any("no-failing-input-found" in rest for _, rest in viol),
                summary=(re.findall(r"^%s: .*$" % pid, out, re.M) or [out[-300:]])[-1], wall_s=round(time.time() - t0, 1),
                verif_commit=subprocess.run(["git", "-C", VERIF, "rev-parse", "--short", "HEAD"], capture_output=True,
                                            text=True).stdout.strip())
            print(name, pid, "CAUGHT" if viol else "missed", kinds, meta["checks"][pid]["summary"])
    finally:
        subprocess.run(["git", "-C", "/repo", "worktree", "remove", "--force", wt], capture_output=True)
        shutil.rmtree(vc, ignore_errors=True)
    json.dump(meta, open(os.path.join(d, "meta.json"), "w"), indent=1, sort_keys=True)


if __name__ == "__main__":
    main()
