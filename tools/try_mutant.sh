#!/bin/bash
# tools/try_mutant.sh <patch.diff> <Cxx> [<Cyy> ...]
# Runs the quick checks of the given properties against a scratch worktree of /repo with the patch applied,
# from a private copy of /verif (so that coq/Gen, .vo files and evidence of the real tree are untouched).
# Prints the VIOLATION / KNOWN-FINDING / summary lines of each check; removes everything afterwards.
set -u
patch="$(readlink -f "$1")"; shift
tag="vm_$$"
wt="/tmp/${tag}_repo"; vc="/tmp/${tag}_verif"
git -C /repo worktree add -f "$wt" HEAD >/dev/null 2>&1 || { echo "cannot create worktree"; exit 2; }
if ! git -C "$wt" apply "$patch"; then echo "PATCH DOES NOT APPLY"; git -C /repo worktree remove --force "$wt"; exit 2; fi
rsync -a --exclude work --exclude .git --exclude replays --exclude '*.vok' --exclude '*.vos' --exclude '*.glob' /verif/ "$vc"/
mkdir -p "$vc/replays"
rc=0
for pid in "$@"; do
  echo "== $pid against $(basename "$patch" ) =="
  ( cd "$vc" && PEPIT_REPO="$wt" timeout 1500 ./check "$pid" --tier quick 2>&1 | grep -E "VIOLATION|KNOWN-FINDING|obligations|Traceback|Error" | head -12 )
  for r in "$vc"/replays/$pid-*.json; do [ -f "$r" ] && { echo "--- replay $(basename "$r")"; head -c 1500 "$r"; echo; }; done
done
git -C /repo worktree remove --force "$wt"
rm -rf "$vc"
