#!/usr/bin/env python3
"""tools/adopt_seed.py <Cxx> <k> — copy a confirmed seeded change into /verif/seeded/<Cxx>-<k>/.

Source: /tmp/seed_<Cxx>/_seed/<k>/{patch.diff, demo.py, notes.md} (written by an independent sub-agent that saw
only the property text) and /tmp/seedconf/<Cxx>_<k>.json (my own confirmation run, tools/confirm_seed.sh).
Only changes whose confirmation succeeded are kept: the patch applies, the demonstration passes on the clean
tree and fails with the patch, and the 269 stable tests still pass with it."""
import json
import os
import shutil
import sys

VERIF = os.path.dirname(os.path.dirname(os.path.abspath(__file__)))


def main():
    # usage: adopt_seed.py <Cxx> <k> [<source root prefix, default /tmp/seed_> [<number to store it under>]]
    pid, k = sys.argv[1], sys.argv[2]
    prefix = sys.argv[3] if len(sys.argv) > 3 else "/tmp/seed_"
    as_k = sys.argv[4] if len(sys.argv) > 4 else k
    src = "%s%s/_seed/%s" % (prefix, pid, k)
    tag = "" if prefix == "/tmp/seed_" else os.path.basename(prefix.rstrip("_")) + "_"
    conf_path = "/tmp/seedconf/%s%s_%s.json" % (tag, pid, k)
    conf = json.load(open(conf_path))
    ok = (conf["patch_applies"] and conf["demo_rc_clean"] == 0 and conf["demo_rc_patched"] != 0
          and conf["suite_passed"] >= 269 and not conf["suite_unexpected_failures"])
    if not ok:
        print("NOT ADOPTED (confirmation failed):", pid, k, conf)
        return 1
    dst = os.path.join(VERIF, "seeded", "%s-%s" % (pid, as_k))
    os.makedirs(dst, exist_ok=True)
    for fn in os.listdir(src):
        a = os.path.join(src, fn)
        if fn.endswith(".log") or fn == "__pycache__":
            continue
        if os.path.isdir(a):
            shutil.copytree(a, os.path.join(dst, fn), dirs_exist_ok=True, ignore=shutil.ignore_patterns("__pycache__"))
        else:
            shutil.copy(a, os.path.join(dst, fn))
    notes = open(os.path.join(src, "notes.md")).read() if os.path.exists(os.path.join(src, "notes.md")) else ""
    meta_path = os.path.join(dst, "meta.json")
    meta = json.load(open(meta_path)) if os.path.exists(meta_path) else {}
    meta.update(dict(
        property=pid,
        origin="independent sub-agent given only the property text and a scratch worktree of /repo",
        needs_to_manifest=notes.strip().split("\n\n")[0][:1500] if notes else "",
        confirmation=dict(
            ran="tools/confirm_seed.sh: scratch worktree of /repo HEAD; demo on clean tree; git apply patch; demo again; "
                "full pytest suite with the patch",
            demo_rc_clean=conf["demo_rc_clean"], demo_rc_patched=conf["demo_rc_patched"],
            suite_passed=conf["suite_passed"], suite_failed_known=conf["suite_failed"],
            demo_output_tail=conf.get("demo_output_tail", "")[-800:]),
    ))
    meta.setdefault("checks", {})
    json.dump(meta, open(meta_path, "w"), indent=1, sort_keys=True)
    print("adopted", dst)
    return 0


if __name__ == "__main__":
    sys.exit(main())
