#!/bin/bash
# tools/confirm_seed.sh <dir with patch.diff demo.py> <out.json> [--no-suite]
# Confirms a seeded change independently: the patch applies to /repo's HEAD, the demonstration passes on the
# clean tree and fails with the patch, and the existing test-suite still passes with the patch
# (269 stable tests; the 2 tests that already fail on the clean tree are ignored).
set -u
d="$(readlink -f "$1")"; out="$2"; suite=1; [ "${3:-}" = "--no-suite" ] && suite=0
tag="cs_$$"
wt="/tmp/${tag}_repo"
git -C /repo worktree add -f "$wt" HEAD >/dev/null 2>&1 || { echo '{"error":"worktree"}' > "$out"; exit 2; }
run_demo() { # $1 = tree
  local f="$d/demo.py"
  if grep -q "def test_" "$f" && ! grep -q "__main__" "$f"; then
    ( cd "$1" && PYTHONPATH="$1" PYTHONHASHSEED=0 timeout 900 /venv/bin/python -W ignore -m pytest -q -p no:cacheprovider "$f" >/tmp/${tag}_demo.log 2>&1 ); echo $?
  else
    ( cd "$1" && PYTHONPATH="$1" PYTHONHASHSEED=0 timeout 900 /venv/bin/python -W ignore "$f" >/tmp/${tag}_demo.log 2>&1 ); echo $?
  fi
}
clean_rc=$(run_demo "$wt")
applies=1
git -C "$wt" apply "$d/patch.diff" 2>/tmp/${tag}_apply.log || applies=0
patched_rc=-1; suite_pass=-1; suite_fail=-1; failed=""
if [ $applies = 1 ]; then
  patched_rc=$(run_demo "$wt")
  tail -5 /tmp/${tag}_demo.log > /tmp/${tag}_demo_tail.log
  if [ $suite = 1 ]; then
    ( cd "$wt" && PYTHONPATH="$wt" timeout 3000 /venv/bin/python -W ignore -m pytest -q -p no:cacheprovider --timeout=900 tests > /tmp/${tag}_suite.log 2>&1 )
    suite_pass=$(grep -oE "[0-9]+ passed" /tmp/${tag}_suite.log | tail -1 | grep -oE "[0-9]+" || echo 0)
    suite_fail=$(grep -oE "[0-9]+ failed" /tmp/${tag}_suite.log | tail -1 | grep -oE "[0-9]+" || echo 0)
    failed=$(grep "^FAILED" /tmp/${tag}_suite.log | grep -v test_gradient_descent_lc | cut -c1-120 | tr '\n' ';')
  fi
fi
/venv/bin/python - "$out" <<EOF
import json, sys
json.dump(dict(patch_applies=bool($applies), demo_rc_clean=$clean_rc, demo_rc_patched=$patched_rc,
               suite_passed=int("${suite_pass:-0}" or 0), suite_failed=int("${suite_fail:-0}" or 0),
               suite_unexpected_failures="""$failed""",
               demo_output_tail=open("/tmp/${tag}_demo_tail.log").read() if $applies else ""), open(sys.argv[1], "w"), indent=1)
EOF
git -C /repo worktree remove --force "$wt"
rm -f /tmp/${tag}_*.log
cat "$out"
