#!/usr/bin/env python3
"""Writes seeded/RESULTS.md: every kept seeded change, what it needs to manifest and which checks catch it."""
import glob
import json
import os
import re

VERIF = os.path.dirname(os.path.dirname(os.path.abspath(__file__)))
rows = []
for d in sorted(glob.glob(os.path.join(VERIF, "seeded", "C*-*"))):
    m = json.load(open(os.path.join(d, "meta.json")))
    patch = open(os.path.join(d, "patch.diff")).read()
    files = sorted(set(x[6:] for x in patch.split("\n") if x.startswith("+++ b/")))
    notes = open(os.path.join(d, "notes.md")).read() if os.path.exists(os.path.join(d, "notes.md")) else ""
    first = re.sub(r"\s+", " ", re.sub(r"[#*`]", "", notes.strip().split("\n\n")[0]))[:230]
    checks = m.get("checks", {})
    caught = ["%s (%s)" % (p, ", ".join(c["replay_kinds"])[:60] + (", no-failing-input-found" if c.get("no_failing_input_found") else ""))
              for p, c in sorted(checks.items()) if c.get("caught")]
    missed = [p for p, c in sorted(checks.items()) if not c.get("caught")]
    rows.append((os.path.basename(d), ", ".join(f.replace("PEPit/", "") for f in files), first, "; ".join(caught) or "-",
                 ", ".join(missed) or "-"))
with open(os.path.join(VERIF, "seeded", "RESULTS.md"), "w") as f:
    f.write("# Seeded changes and the checks that catch them\n\n"
            "Each change was written by a sub-agent that saw only the property text and a scratch worktree of /repo, then\n"
            "confirmed independently (tools/confirm_seed.sh: demo passes on the clean tree, fails with the patch, 269 stable\n"
            "tests still pass) and run against the quick checks from a private copy of /verif (tools/eval_seed.py).\n\n"
            "| seed | files | what it is (first lines of the author's notes) | caught by (replay kind) | run and missed by |\n|---|---|---|---|---|\n")
    for r in rows:
        f.write("| " + " | ".join(x.replace("|", "/") for x in r) + " |\n")
print(len(rows), "seeds")
