import ast,sys
def strip(path):
    src=open(path).read()
    tree=ast.parse(src)
    lines=src.split('\n')
    kill=set()
    for node in ast.walk(tree):
        if isinstance(node,(ast.FunctionDef,ast.ClassDef,ast.Module)):
            b=node.body
            if b and isinstance(b[0],ast.Expr) and isinstance(b[0].value,ast.Constant) and isinstance(b[0].value.value,str):
                for l in range(b[0].lineno,b[0].end_lineno+1): kill.add(l)
    for i,l in enumerate(lines,1):
        if i in kill or not l.strip() or l.strip().startswith('#'): continue
        print(f"{i:4d} {l}")
for p in sys.argv[1:]:
    print('#######',p); strip(p)
