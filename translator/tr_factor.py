"""tr_factor — the factorisation prefix of PEP._eval_points_and_function_values (pep.py) -> coq/Gen/Factor.v (C02).

Grammar (fail-closed; anything else becomes `FOther "<why>"`, which the obligation C02_factor_plan_modelled rejects):

  prefix  ::= eigh clip? qr                       (statements before the first `for`; docstring / comments skipped)
  eigh    ::= <lam>, <vec> = np.linalg.eigh(<G>)                    <G> = the parameter named G_value      -> FEigh
  clip    ::= if np.min(<lam>) < 0: [if verbose: print(..)] <lam> = np.maximum(<lam>, 0)                    -> FClipGuarded
            | <lam> = np.maximum(<lam>, 0)                                                                  -> FClip
  qr      ::= <pv> = np.linalg.qr((np.sqrt(<lam>) * <vec>).T, mode='r')                                     -> FQrScaledT
            (the product may be written <vec> * np.sqrt(<lam>))

and, anywhere after the prefix, every assignment `<x>._value = <rhs>`:
  <pv>[:, <x>.counter]      -> VColumn       (leaf point x gets column x.counter)
  <F>[<x>.counter]          -> VEntry        (leaf expression x gets entry x.counter; <F> = the parameter F_value)
  anything else             -> VOther "<why>"
Local names (<lam>, <vec>, <pv>) are bound from the source.
"""
import ast
import os

REPO = os.environ.get("PEPIT_REPO", "/repo")
OUTPUT = "Factor.v"


def cstr(s):
    return '"' + str(s).replace('"', '""') + '"'


def is_np(n, *path):
    """n is np.<path...>"""
    for attr in reversed(path):
        if not (isinstance(n, ast.Attribute) and n.attr == attr):
            return False
        n = n.value
    return isinstance(n, ast.Name) and n.id == "np"


def is_name(n, name):
    return isinstance(n, ast.Name) and n.id == name


def is_const(n, v):
    return isinstance(n, ast.Constant) and type(n.value) in (int, float) and n.value == v


def print_only(stmts):
    return all(isinstance(s, ast.Expr) and isinstance(s.value, ast.Call) and is_name(s.value.func, "print")
               for s in stmts)


def translate():
    status = {}
    path = os.path.join(REPO, "PEPit", "pep.py")
    tree = ast.parse(open(path).read())
    fn = None
    for node in ast.walk(tree):
        if isinstance(node, ast.FunctionDef) and node.name == "_eval_points_and_function_values":
            fn = node
    plan, reads = [], []
    if fn is None:
        plan.append(("FOther", "function _eval_points_and_function_values not found"))
        body = []
    else:
        params = [a.arg for a in fn.args.args]
        body = list(fn.body)
        if body and isinstance(body[0], ast.Expr) and isinstance(body[0].value, ast.Constant) \
                and isinstance(body[0].value.value, str):
            body = body[1:]
        if "G_value" not in params or "F_value" not in params:
            plan.append(("FOther", "parameters F_value / G_value not found"))
    lam = vec = pv = None
    k = 0
    # --- prefix: statements before the first `for`
    while k < len(body) and not isinstance(body[k], ast.For):
        s = body[k]
        k += 1
        why = None
        if isinstance(s, ast.Assign) and len(s.targets) == 1:
            t, v = s.targets[0], s.value
            if (isinstance(t, ast.Tuple) and len(t.elts) == 2 and all(isinstance(e, ast.Name) for e in t.elts)
                    and isinstance(v, ast.Call) and is_np(v.func, "linalg", "eigh") and len(v.args) == 1
                    and not v.keywords and is_name(v.args[0], "G_value") and lam is None):
                lam, vec = t.elts[0].id, t.elts[1].id
                plan.append(("FEigh", None))
                continue
            if (lam and isinstance(t, ast.Name) and t.id == lam and isinstance(v, ast.Call)
                    and is_np(v.func, "maximum") and len(v.args) == 2 and not v.keywords
                    and is_name(v.args[0], lam) and is_const(v.args[1], 0)):
                plan.append(("FClip", None))
                continue
            if (lam and isinstance(t, ast.Name) and isinstance(v, ast.Call) and is_np(v.func, "linalg", "qr")
                    and len(v.args) == 1 and len(v.keywords) == 1 and v.keywords[0].arg == "mode"
                    and isinstance(v.keywords[0].value, ast.Constant) and v.keywords[0].value.value == "r"):
                a = v.args[0]
                ok = False
                if isinstance(a, ast.Attribute) and a.attr == "T" and isinstance(a.value, ast.BinOp) \
                        and isinstance(a.value.op, ast.Mult):
                    l, r = a.value.left, a.value.right
                    for sq, ve in ((l, r), (r, l)):
                        if (isinstance(sq, ast.Call) and is_np(sq.func, "sqrt") and len(sq.args) == 1
                                and not sq.keywords and is_name(sq.args[0], lam) and is_name(ve, vec)):
                            ok = True
                if ok and pv is None:
                    pv = t.id
                    plan.append(("FQrScaledT", None))
                    continue
                why = "line %d: argument of qr is not (np.sqrt(%s) * %s).T" % (s.lineno, lam, vec)
        elif isinstance(s, ast.If) and lam and not s.orelse:
            t = s.test
            if (isinstance(t, ast.Compare) and len(t.ops) == 1 and isinstance(t.ops[0], ast.Lt)
                    and isinstance(t.left, ast.Call) and is_np(t.left.func, "min") and len(t.left.args) == 1
                    and is_name(t.left.args[0], lam) and is_const(t.comparators[0], 0)):
                inner = list(s.body)
                if inner and isinstance(inner[0], ast.If) and is_name(inner[0].test, "verbose") \
                        and not inner[0].orelse and print_only(inner[0].body):
                    inner = inner[1:]
                if (len(inner) == 1 and isinstance(inner[0], ast.Assign) and len(inner[0].targets) == 1
                        and is_name(inner[0].targets[0], lam) and isinstance(inner[0].value, ast.Call)
                        and is_np(inner[0].value.func, "maximum") and len(inner[0].value.args) == 2
                        and is_name(inner[0].value.args[0], lam) and is_const(inner[0].value.args[1], 0)):
                    plan.append(("FClipGuarded", None))
                    continue
            why = "line %d: unexpected `if` in the factorisation prefix" % s.lineno
        plan.append(("FOther", why or "line %d: unexpected statement %s" % (s.lineno, type(s).__name__)))
    # --- value assignments after the prefix
    for s in body[k:]:
        for n in ast.walk(s):
            if not (isinstance(n, ast.Assign) and len(n.targets) == 1 and isinstance(n.targets[0], ast.Attribute)
                    and n.targets[0].attr == "_value"):
                continue
            obj = ast.dump(n.targets[0].value)
            v = n.value
            kind = None
            if isinstance(v, ast.Subscript) and is_name(v.value, pv or "?"):
                sl = v.slice
                if (isinstance(sl, ast.Tuple) and len(sl.elts) == 2 and isinstance(sl.elts[0], ast.Slice)
                        and sl.elts[0].lower is None and sl.elts[0].upper is None and sl.elts[0].step is None
                        and isinstance(sl.elts[1], ast.Attribute) and sl.elts[1].attr == "counter"
                        and ast.dump(sl.elts[1].value) == obj):
                    kind = ("VColumn", None)
            elif isinstance(v, ast.Subscript) and is_name(v.value, "F_value"):
                sl = v.slice
                if isinstance(sl, ast.Attribute) and sl.attr == "counter" and ast.dump(sl.value) == obj:
                    kind = ("VEntry", None)
            if kind is None:
                kind = ("VOther", "line %d: %s" % (n.lineno, ast.unparse(n)))
            reads.append(kind)
    # assignments to the eigen data or to points_values after the prefix are outside the grammar
    for s in body[k:]:
        for n in ast.walk(s):
            if isinstance(n, (ast.Assign, ast.AugAssign)):
                tg = n.targets if isinstance(n, ast.Assign) else [n.target]
                for t in tg:
                    for m in ast.walk(t):
                        if isinstance(m, ast.Name) and m.id in (lam, vec, pv) and isinstance(m.ctx, ast.Store):
                            plan.append(("FOther", "line %d: %s re-assigned after the prefix" % (n.lineno, m.id)))
    for i, (c, why) in enumerate(plan):
        status["plan#%d" % i] = True if c != "FOther" else why
    for i, (c, why) in enumerate(reads):
        status["value#%d" % i] = True if c != "VOther" else why

    def term(c, why):
        return c if why is None else "(%s %s)" % (c, cstr(why))
    L = ["(** GENERATED by translator/tr_factor.py -- the factorisation prefix of PEP._eval_points_and_function_values",
         "    and the shape of every assignment of a leaf value after it. *)",
         "From Coq Require Import List String.",
         "From PV Require Import Model.FactorPlan.",
         "Import ListNotations.",
         "Open Scope string_scope.",
         "",
         "Definition factor_plan : list fstep := [" + "; ".join(term(c, w) for c, w in plan) + "].",
         "",
         "Definition value_assignments : list vread := [" + "; ".join(term(c, w) for c, w in reads) + "]."]
    return OUTPUT, "\n".join(L) + "\n", status


if __name__ == "__main__":
    fn_, text, st = translate()
    print(text)
    for k_, v_ in st.items():
        if v_ is not True:
            print("ERR", k_, v_)
