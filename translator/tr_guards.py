"""tr_guards — every use of `verbose` in PEPit/pep.py, PEPit/wrapper.py, PEPit/wrappers/*.py -> coq/Gen/Guards.v (C12).

A "use" is a parameter named `verbose`, a Name `verbose`, an attribute `<x>.verbose`, or the string key 'verbose'.
Classification (Model.Reset.vuse):
  VParam         parameter declaration
  VPrintGuard    (part of) the test of an `if` without else whose body only prints:
                    body  ::= print(<pure>*) | message = <pure> | message += <pure> | if <pure>: body (no else)
                    test  ::= verbose | <x>.verbose > <const> | verbose and <pure> (pure: no call except len(..))
                    pure  ::= constants, names, attributes, subscripts, arithmetic, comparisons, `str.format(pure*)`,
                              len(..), np.min(..), <x>.get_nb_blocks(), *args; no assignment, no other call;
                    `message` is a local that is read only as the argument of print(message)
  VForwardCtor   keyword `verbose=verbose` of WRAPPERS[..](..) or super().__init__(..)
  VForwardSelf m keyword / positional argument of self.m(..) in the position of m's parameter `verbose`
  VStoreAttr     self.verbose = verbose
  VSolverLog     test of an `if` without else whose body only switches the solver's own log on:
                    kwargs['verbose'] = True | self.task.set_Stream(mosek.streamtype.log, self._streamprinter)
                    | self.task.solutionsummary(mosek.streamtype.msg)
  VOther why     anything else  (the obligation `all uses are harmless` then fails)
"""
import ast
import glob
import os

REPO = os.environ.get("PEPIT_REPO", "/repo")
OUTPUT = "Guards.v"

PURE_CALLS_ATTR = {"format", "get_nb_blocks", "min"}
PURE_CALLS_NAME = {"len"}


def cstr(s):
    return '"' + str(s).replace('"', '""') + '"'


def files():
    root = os.path.join(REPO, "PEPit")
    out = [os.path.join(root, "pep.py"), os.path.join(root, "wrapper.py")]
    out += sorted(glob.glob(os.path.join(root, "wrappers", "*.py")))
    return [(os.path.relpath(p, root), p) for p in out]


def is_verbose_node(n):
    return (isinstance(n, ast.Name) and n.id == "verbose") or (isinstance(n, ast.Attribute) and n.attr == "verbose")


def pure(n):
    """expression without side effects (grammar above); `verbose` itself may not occur in it"""
    if is_verbose_node(n):
        return False
    if isinstance(n, (ast.Constant, ast.Name)):
        return True
    if isinstance(n, ast.Attribute):
        return pure(n.value)
    if isinstance(n, ast.Subscript):
        return pure(n.value) and pure(n.slice)
    if isinstance(n, ast.Slice):
        return all(pure(x) for x in (n.lower, n.upper, n.step) if x is not None)
    if isinstance(n, (ast.Tuple, ast.List)):
        return all(pure(e) for e in n.elts)
    if isinstance(n, ast.Starred):
        return pure(n.value)
    if isinstance(n, ast.BinOp):
        return pure(n.left) and pure(n.right)
    if isinstance(n, ast.UnaryOp):
        return pure(n.operand)
    if isinstance(n, ast.BoolOp):
        return all(pure(v) for v in n.values)
    if isinstance(n, ast.Compare):
        return pure(n.left) and all(pure(c) for c in n.comparators)
    if isinstance(n, ast.JoinedStr):
        return all(pure(v) for v in n.values)
    if isinstance(n, ast.FormattedValue):
        return pure(n.value)
    if isinstance(n, ast.Call):
        f = n.func
        ok = (isinstance(f, ast.Name) and f.id in PURE_CALLS_NAME) or \
             (isinstance(f, ast.Attribute) and f.attr in PURE_CALLS_ATTR and pure(f.value))
        return ok and all(pure(a) for a in n.args) and all(pure(k.value) for k in n.keywords)
    return False


def print_only(body):
    """None if `body` is print-only, else the reason"""
    for s in body:
        if isinstance(s, ast.Expr) and isinstance(s.value, ast.Call) and isinstance(s.value.func, ast.Name) \
                and s.value.func.id == "print":
            c = s.value
            if all(pure(a) for a in c.args) and all(pure(k.value) for k in c.keywords):
                continue
            return "line %d: print of an impure expression" % s.lineno
        if isinstance(s, ast.Assign) and len(s.targets) == 1 and isinstance(s.targets[0], ast.Name) \
                and s.targets[0].id == "message" and pure(s.value):
            continue
        if isinstance(s, ast.AugAssign) and isinstance(s.target, ast.Name) and s.target.id == "message" \
                and isinstance(s.op, ast.Add) and pure(s.value):
            continue
        if isinstance(s, ast.If) and not s.orelse and pure(s.test):
            r = print_only(s.body)
            if r is None:
                continue
            return r
        return "line %d: statement that is not a print: %s" % (s.lineno, ast.unparse(s).split("\n")[0][:60])
    return None


def solver_log_only(body):
    for s in body:
        src = ast.unparse(s)
        if src in ("kwargs['verbose'] = True",
                   "self.task.set_Stream(mosek.streamtype.log, self._streamprinter)",
                   "self.task.solutionsummary(mosek.streamtype.msg)"):
            continue
        return False
    return True


def message_reads_ok(fn):
    """in function `fn`, the local `message` is read only as `print(message)`"""
    parents = {}
    for n in ast.walk(fn):
        for c in ast.iter_child_nodes(n):
            parents[c] = n
    for n in ast.walk(fn):
        if isinstance(n, ast.Name) and n.id == "message" and isinstance(n.ctx, ast.Load):
            p = parents.get(n)
            if not (isinstance(p, ast.Call) and isinstance(p.func, ast.Name) and p.func.id == "print" and n in p.args):
                return False
    return True


def classify_file(rel, path):
    tree = ast.parse(open(path).read(), filename=path)
    parents = {}
    for n in ast.walk(tree):
        for c in ast.iter_child_nodes(n):
            parents[c] = n
    uses = []

    def enclosing(n, kinds):
        p = parents.get(n)
        while p is not None and not isinstance(p, kinds):
            p = parents.get(p)
        return p

    def fn_name(n):
        f = enclosing(n, (ast.FunctionDef,))
        c = enclosing(n, (ast.ClassDef,))
        return "%s.%s" % (c.name if c else "", f.name if f else "<module>")

    def method_params(cls, name):
        for f in cls.body:
            if isinstance(f, ast.FunctionDef) and f.name == name:
                return [a.arg for a in f.args.args][1:], f
        return None, None

    def in_test(n):
        """the If node whose test contains n (n reached only through BoolOp(And)/Compare), or None"""
        cur, p = n, parents.get(n)
        while isinstance(p, (ast.BoolOp, ast.Compare)):
            if isinstance(p, ast.BoolOp) and not isinstance(p.op, ast.And):
                return None
            cur, p = p, parents.get(p)
        if isinstance(p, ast.If) and p.test is cur:
            return p
        return None

    def test_ok(test):
        """verbose | x.verbose > c | verbose and pure.."""
        if is_verbose_node(test):
            return True
        if isinstance(test, ast.Compare) and is_verbose_node(test.left) and len(test.ops) == 1 \
                and isinstance(test.ops[0], (ast.Gt, ast.GtE)) and isinstance(test.comparators[0], ast.Constant):
            return True
        if isinstance(test, ast.BoolOp) and isinstance(test.op, ast.And):
            vs = [v for v in test.values if test_ok(v)]
            others = [v for v in test.values if not test_ok(v)]
            return len(vs) >= 1 and all(pure(o) for o in others)
        return False

    def classify(n):
        p = parents.get(n)
        # --- test of an if
        iff = in_test(n)
        if iff is not None:
            if iff.orelse:
                return "VOther", "if on verbose with an else branch"
            if not test_ok(iff.test):
                return "VOther", "test outside the grammar: " + ast.unparse(iff.test)[:50]
            why = print_only(iff.body)
            if why is None:
                f = enclosing(n, (ast.FunctionDef,))
                if f is not None and not message_reads_ok(f):
                    return "VOther", "local `message` is read outside print(message)"
                return "VPrintGuard", None
            if solver_log_only(iff.body):
                return "VSolverLog", None
            return "VOther", "guarded block does real work (%s)" % why
        # --- keyword argument verbose=verbose
        if isinstance(p, ast.keyword) and p.arg == "verbose" and isinstance(n, ast.Name):
            call = parents.get(p)
            f = call.func
            if isinstance(f, ast.Subscript) and isinstance(f.value, ast.Name) and f.value.id == "WRAPPERS":
                return "VForwardCtor", None
            if isinstance(f, ast.Attribute) and f.attr == "__init__" and isinstance(f.value, ast.Call) \
                    and isinstance(f.value.func, ast.Name) and f.value.func.id == "super":
                return "VForwardCtor", None
            if isinstance(f, ast.Attribute) and isinstance(f.value, ast.Name) and f.value.id == "self":
                cls = enclosing(n, (ast.ClassDef,))
                params, _ = method_params(cls, f.attr) if cls else (None, None)
                if params is not None and "verbose" in params:
                    return "VForwardSelf %s" % cstr(f.attr), None
            return "VOther", "verbose handed to " + ast.unparse(f)[:40]
        # --- positional argument of self.m(...)
        if isinstance(p, ast.Call) and isinstance(n, ast.Name) and n in p.args:
            f = p.func
            if isinstance(f, ast.Attribute) and isinstance(f.value, ast.Name) and f.value.id == "self":
                cls = enclosing(n, (ast.ClassDef,))
                params, _ = method_params(cls, f.attr) if cls else (None, None)
                i = p.args.index(n)
                if params is not None and i < len(params) and params[i] == "verbose" \
                        and not any(isinstance(a, ast.Starred) for a in p.args[:i]):
                    return "VForwardSelf %s" % cstr(f.attr), None
            return "VOther", "verbose passed positionally to " + ast.unparse(f)[:40]
        # --- self.verbose = verbose
        if isinstance(p, ast.Assign) and len(p.targets) == 1:
            t = p.targets[0]
            if n is p.value and isinstance(n, ast.Name) and isinstance(t, ast.Attribute) and t.attr == "verbose" \
                    and isinstance(t.value, ast.Name) and t.value.id == "self":
                return "VStoreAttr", None
            if n is t and isinstance(n, ast.Attribute) and isinstance(p.value, ast.Name) and p.value.id == "verbose" \
                    and isinstance(n.value, ast.Name) and n.value.id == "self":
                return None, None       # the target side of the same statement: counted once
        return "VOther", "use outside the grammar: " + ast.unparse(p)[:60]

    for n in ast.walk(tree):
        if isinstance(n, ast.arg) and n.arg == "verbose":
            uses.append(("%s:%d" % (rel, n.lineno), fn_name(n), "VParam", None))
        elif is_verbose_node(n):
            k, why = classify(n)
            if k is None:
                continue
            uses.append(("%s:%d" % (rel, n.lineno), fn_name(n), k, why))
        elif isinstance(n, ast.Constant) and n.value == "verbose":
            # the string key: only inside `kwargs['verbose'] = True` of a solver-log block
            st = enclosing(n, (ast.stmt,))
            if not (st is not None and ast.unparse(st) == "kwargs['verbose'] = True"):
                uses.append(("%s:%d" % (rel, n.lineno), fn_name(n), "VOther", "string 'verbose' outside the solver option"))
            else:
                iff = parents.get(st)
                if not (isinstance(iff, ast.If) and test_ok(iff.test)):
                    uses.append(("%s:%d" % (rel, n.lineno), fn_name(n), "VOther", "solver option set outside a verbose guard"))
    uses.sort(key=lambda u: (u[0].split(":")[0], int(u[0].split(":")[1])))
    return uses


def translate():
    status = {}
    all_uses = []
    for rel, p in files():
        try:
            u = classify_file(rel, p)
            all_uses += u
            status["file:" + rel] = True
        except Exception as e:      # fail closed
            status["file:" + rel] = "cannot classify uses of verbose: %r" % (e,)
            all_uses.append((rel + ":0", "", "VOther", "translator error %r" % (e,)))
    L = ["(** GENERATED by translator/tr_guards.py -- every use of `verbose` in pep.py, wrapper.py, wrappers/*.py. *)",
         "From Coq Require Import List String Bool.",
         "From PV Require Import Model.Reset.",
         "Import ListNotations.",
         "Open Scope string_scope.",
         "",
         "(** (file#k-th use inside the function, enclosing function, classification) *)",
         "Definition verbose_uses : list (string * string * vuse) := ["]
    items = []
    ordinal = {}
    for loc, fn, k, why in all_uses:
        term = ("VOther %s" % cstr(why)) if k == "VOther" else k
        # the generated location is position-independent (file, k-th use inside the function): moving code up or
        # down must not change Gen/Guards.v; line numbers stay in the status / error messages
        rel = loc.rsplit(":", 1)[0]
        ordinal[(rel, fn)] = ordinal.get((rel, fn), 0) + 1
        place = "%s#%d" % (rel, ordinal[(rel, fn)])
        items.append("  (%s, %s, %s)" % (cstr(place), cstr(fn), term if " " not in term else "(" + term + ")"))
        if k == "VOther":
            status["use:" + loc] = "%s in %s: %s" % (loc, fn, why)
    L.append(";\n".join(items))
    L.append("].")
    return OUTPUT, "\n".join(L) + "\n", status


if __name__ == "__main__":
    fn, text, st = translate()
    print(text)
    for k, v in st.items():
        if v is not True:
            print("ERR", k, v)
