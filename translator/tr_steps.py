"""tr_steps — translator plug-in: PEPit/primitive_steps/*.py  ->  coq/Gen/Steps.v

Each step function becomes a straight-line program of Model/StepsRT.v, one program per option branch
(`if opt == '<lit>': ... elif ...: else: raise ValueError`), the `for d in directions:` loop becomes a
`ForEach`.  Point / Expression / comparison expressions are translated by pep2coq.Tr (deep-embedded
terms of Model/Terms.v, Python's operator tree kept as is).

Fail-closed.  Grammar (DESIGN.md Appendix A.3); everything else makes the step untranslatable (nothing
is emitted for it, so every proof about it stops compiling):

  module   ::= docstring? ("from PEPit.point import Point" | "from PEPit.expression import Expression")*
               def <file stem>(params): docstring? stmt*
  params   ::= names from the sort table below; only the option parameter may have a (string) default
  stmt     ::= N = Point() | N = Expression() | N1, .., Nk = Point()|Expression(), .., Point()|Expression()
             | G, F = f.oracle(P)          | F = f.value(P)
             | N = <point expr> | N = <expression expr> | N = (<comparison>)        (Tr grammar, A.1)
             | N1, .., Nk = M1, .., Mk | N = M                                      (copies of names)
             | f.add_point((X, G, F)) | f.add_constraint(C)
             | C.set_name("<literal>".format(<name>.get_name(), ...))               (opaque)
             | if <opt> == '<lit>': stmt* (elif <opt> == '<lit>': stmt*)* else: raise ValueError(...)
             | for d in <list parameter>: (N = (<comparison>) | N = <expr> | C.set_name(..) | f.add_constraint(C))*
             | return N1, .., Nk | return N
  In-place pruning by add_point / oracle / value is modelled on variables; a program in which a copied
  name (or its source) is pruned after the copy is rejected (the two names denote one Python object).
"""
import ast
import os
import warnings

from .pep2coq import Tr, Untranslatable, strip_doc, REPO

OUTPUT = "Steps.v"

# parameter name -> sort: P point, F function, S scalar, L list of points, O option string
PARAM_SORTS = {
    "x0": "P", "sx0": "P", "gx0": "P", "dir": "P",
    "f": "F", "ind": "F", "mirror_map": "F", "min_function": "F",
    "gamma": "S", "epsilon": "S",
    "directions": "L",
    "notion": "O", "opt": "O",
}
ALLOWED_IMPORTS = {("PEPit.point", "Point"), ("PEPit.expression", "Expression")}


class StepTr(object):
    def __init__(self, fn, path):
        self.fn, self.path = fn, path
        self.vars = {}            # name -> (sort P|X|C, index)
        self.count = {"P": 0, "X": 0, "C": 0}
        self.funs, self.scal = {}, {}
        self.listpar = None
        self.optpar = None
        self.default = None
        self.literals = []
        self.parse_params()

    def fail(self, node, why):
        raise Untranslatable(node, why, self.path)

    # ------------------------------------------------------------------ parameters
    def parse_params(self):
        a = self.fn.args
        if a.vararg or a.kwarg or a.kwonlyargs or a.posonlyargs:
            self.fail(self.fn, "unsupported parameter kinds")
        names = [x.arg for x in a.args]
        ndef = len(a.defaults)
        for k, n in enumerate(names):
            if n not in PARAM_SORTS:
                self.fail(self.fn, "unknown parameter %s" % n)
            srt = PARAM_SORTS[n]
            has_default = k >= len(names) - ndef
            if has_default and srt != "O":
                self.fail(self.fn, "default value on a non-option parameter")
            if srt == "P":
                self.alloc(n, "P")
            elif srt == "F":
                self.funs[n] = len(self.funs)
            elif srt == "S":
                self.scal[n] = len(self.scal)
            elif srt == "L":
                if self.listpar is not None:
                    self.fail(self.fn, "two list parameters")
                self.listpar = n
            else:
                if self.optpar is not None:
                    self.fail(self.fn, "two option parameters")
                self.optpar = n
                if has_default:
                    d = a.defaults[k - (len(names) - ndef)]
                    if not (isinstance(d, ast.Constant) and isinstance(d.value, str)):
                        self.fail(d, "option default must be a string literal")
                    self.default = d.value
        self.npoints = self.count["P"]

    def alloc(self, name, sort):
        if name in self.vars:
            if self.vars[name][0] != sort:
                self.fail(self.fn, "name %s used with two sorts" % name)
            return self.vars[name][1]
        if name in self.funs or name in self.scal or name == self.listpar or name == self.optpar:
            self.fail(self.fn, "assignment to parameter %s of another sort" % name)
        self.vars[name] = (sort, self.count[sort])
        self.count[sort] += 1
        return self.vars[name][1]

    def env(self):
        e = {}
        for n, (s, k) in self.vars.items():
            if s == "P":
                e[n] = ("P", "(PVar %d)" % k)
            elif s == "X":
                e[n] = ("X", "(XVar %d)" % k)
        for n, k in self.scal.items():
            e[n] = ("S", "(SPar %d)" % k)
        return e

    def var(self, node, sort):
        if not (isinstance(node, ast.Name) and node.id in self.vars and self.vars[node.id][0] == sort):
            self.fail(node, "expected a %s variable" % sort)
        return self.vars[node.id][1]

    def fun(self, node):
        if not (isinstance(node, ast.Name) and node.id in self.funs):
            self.fail(node, "expected a function parameter")
        return self.funs[node.id]

    # ------------------------------------------------------------------ option literals
    def option_literals(self):
        lits = []
        for n in ast.walk(self.fn):
            if isinstance(n, ast.If):
                t = self.opt_test(n.test, soft=True)
                if t is not None and t not in lits:
                    lits.append(t)
        return lits

    def opt_test(self, t, soft=False):
        if (self.optpar is not None and isinstance(t, ast.Compare) and len(t.ops) == 1 and isinstance(t.ops[0], ast.Eq)
                and isinstance(t.left, ast.Name) and t.left.id == self.optpar
                and isinstance(t.comparators[0], ast.Constant) and isinstance(t.comparators[0].value, str)):
            return t.comparators[0].value
        if soft:
            return None
        self.fail(t, "only  <option parameter> == '<literal>'  tests are supported")

    # ------------------------------------------------------------------ statements
    @staticmethod
    def fresh_kind(v):
        if isinstance(v, ast.Call) and isinstance(v.func, ast.Name) and v.func.id in ("Point", "Expression") \
                and not v.args and not v.keywords:
            return v.func.id
        return None

    def method_call(self, v, meth):
        """f.<meth>(arg)  ->  (f index, arg node)"""
        if isinstance(v, ast.Call) and isinstance(v.func, ast.Attribute) and v.func.attr == meth \
                and isinstance(v.func.value, ast.Name) and v.func.value.id in self.funs \
                and len(v.args) == 1 and not v.keywords:
            return self.funs[v.func.value.id], v.args[0]
        return None

    def mutate(self, node, names):
        for n in names:
            if n in self.aliased:
                self.fail(node, "object %s is pruned in place after it was given a second name" % n)

    def simple(self, s, out, in_loop=False, loop_var=None):
        """translate one simple statement, appending sinstr strings to out; returns False if not simple"""
        if isinstance(s, ast.Assign):
            if len(s.targets) != 1:
                self.fail(s, "chained assignment")
            tgt, val = s.targets[0], s.value
            # fresh objects
            if isinstance(tgt, ast.Name) and self.fresh_kind(val):
                if in_loop:
                    self.fail(s, "object creation inside a loop")
                k = self.fresh_kind(val)
                out.append("FreshPoint %d" % self.alloc(tgt.id, "P") if k == "Point"
                           else "FreshExpr %d" % self.alloc(tgt.id, "X"))
                return True
            if isinstance(tgt, ast.Tuple) and isinstance(val, ast.Tuple) and len(tgt.elts) == len(val.elts) \
                    and all(self.fresh_kind(v) for v in val.elts):
                if in_loop or not all(isinstance(t, ast.Name) for t in tgt.elts):
                    self.fail(s, "unsupported tuple of fresh objects")
                if len(set(t.id for t in tgt.elts)) != len(tgt.elts):
                    self.fail(s, "repeated target")
                for t, v in zip(tgt.elts, val.elts):     # right-hand side is evaluated left to right
                    k = self.fresh_kind(v)
                    out.append("FreshPoint %d" % self.alloc(t.id, "P") if k == "Point"
                               else "FreshExpr %d" % self.alloc(t.id, "X"))
                return True
            # g, fx = f.oracle(p)
            mc = self.method_call(val, "oracle")
            if mc is not None:
                if in_loop or not (isinstance(tgt, ast.Tuple) and len(tgt.elts) == 2
                                   and all(isinstance(t, ast.Name) for t in tgt.elts)):
                    self.fail(s, "expected  g, f = <function>.oracle(<point>)")
                p = self.var(mc[1], "P")
                self.mutate(s, [mc[1].id])
                g = self.alloc(tgt.elts[0].id, "P")
                fx = self.alloc(tgt.elts[1].id, "X")
                if g == p:
                    self.fail(s, "oracle output overwrites its input")
                out.append("Oracle %d %d %d %d" % (mc[0], p, g, fx))
                return True
            mc = self.method_call(val, "value")
            if mc is not None:
                if in_loop or not isinstance(tgt, ast.Name):
                    self.fail(s, "expected  f0 = <function>.value(<point>)")
                p = self.var(mc[1], "P")
                self.mutate(s, [mc[1].id])
                out.append("Value %d %d %d" % (mc[0], p, self.alloc(tgt.id, "X")))
                return True
            # copies of names
            if isinstance(tgt, ast.Tuple) and isinstance(val, ast.Tuple) and len(tgt.elts) == len(val.elts) \
                    and all(isinstance(v, ast.Name) for v in val.elts) and all(isinstance(t, ast.Name) for t in tgt.elts):
                if in_loop:
                    self.fail(s, "copy inside a loop")
                srcs = [v.id for v in val.elts]
                tgts = [t.id for t in tgt.elts]
                if set(srcs) & set(tgts) or len(set(tgts)) != len(tgts):
                    self.fail(s, "simultaneous assignment with overlapping names")
                for t, v in zip(tgts, srcs):
                    self.copy(s, t, v, out)
                return True
            if isinstance(tgt, ast.Name) and isinstance(val, ast.Name) and val.id in self.vars:
                if in_loop:
                    self.fail(s, "copy inside a loop")
                self.copy(s, tgt.id, val.id, out)
                return True
            # expressions
            if isinstance(tgt, ast.Name):
                if tgt.id == loop_var:
                    self.fail(s, "assignment to the loop variable")
                srt, term = Tr(self.env(), self.path).tr(val)
                if srt == "P":
                    out.append("LetP %d %s" % (self.alloc(tgt.id, "P"), term))
                elif srt == "X":
                    out.append("LetX %d %s" % (self.alloc(tgt.id, "X"), term))
                elif srt == "C":
                    out.append("LetC %d %s" % (self.alloc(tgt.id, "C"), term))
                else:
                    self.fail(s, "assignment of a scalar")
                # a re-bound name is a new object: it no longer shares anything
                self.aliased.discard(tgt.id)
                return True
            self.fail(s, "unsupported assignment")
        if isinstance(s, ast.Expr) and isinstance(s.value, ast.Call):
            c = s.value
            mc = self.method_call(c, "add_point")
            if mc is not None:
                t = mc[1]
                if in_loop or not (isinstance(t, ast.Tuple) and len(t.elts) == 3 and all(isinstance(e, ast.Name) for e in t.elts)):
                    self.fail(s, "expected  <function>.add_point((x, g, f))  with three names")
                x, g, fx = self.var(t.elts[0], "P"), self.var(t.elts[1], "P"), self.var(t.elts[2], "X")
                self.mutate(s, [e.id for e in t.elts])
                out.append("AddPoint %d %d %d %d" % (mc[0], x, g, fx))
                return True
            mc = self.method_call(c, "add_constraint")
            if mc is not None:
                out.append("AddConstraint %d %d" % (mc[0], self.var(mc[1], "C")))
                return True
            # constraint.set_name("...".format(a.get_name(), ...))
            if isinstance(c.func, ast.Attribute) and c.func.attr == "set_name" and len(c.args) == 1 and not c.keywords:
                cv = self.var(c.func.value, "C")
                a = c.args[0]
                if not (isinstance(a, ast.Call) and isinstance(a.func, ast.Attribute) and a.func.attr == "format"
                        and isinstance(a.func.value, ast.Constant) and isinstance(a.func.value.value, str)
                        and not a.keywords):
                    self.fail(s, "expected  set_name('<literal>'.format(...))")
                for g in a.args:
                    if not (isinstance(g, ast.Call) and isinstance(g.func, ast.Attribute) and g.func.attr == "get_name"
                            and isinstance(g.func.value, ast.Name) and not g.args and not g.keywords
                            and (g.func.value.id in self.vars or g.func.value.id in self.funs)):
                        self.fail(s, "format arguments must be  <name>.get_name()")
                lit = a.func.value.value
                if '"' in lit:
                    self.fail(s, "double quote in a name format")
                out.append('SetName %d "%s"' % (cv, lit))
                return True
            self.fail(s, "unsupported call statement")
        return False

    def copy(self, node, t, v, out):
        if v not in self.vars:
            self.fail(node, "copy of an unknown name %s" % v)
        srt, k = self.vars[v]
        if srt == "P":
            out.append("LetP %d (PVar %d)" % (self.alloc(t, "P"), k))
        elif srt == "X":
            out.append("LetX %d (XVar %d)" % (self.alloc(t, "X"), k))
        else:
            self.fail(node, "copy of a constraint")
        self.aliased.update([t, v])

    def block(self, stmts, optval, out):
        """translate a statement list for the option value optval (None = none of the literals).
        Returns True when the block ends the program (return / raise)."""
        for k, s in enumerate(stmts):
            last = k == len(stmts) - 1
            if isinstance(s, ast.If):
                node, done = s, None
                while True:
                    lit = self.opt_test(node.test)
                    if lit == optval:
                        done = self.block(node.body, optval, out)
                        break
                    if len(node.orelse) == 1 and isinstance(node.orelse[0], ast.If):
                        node = node.orelse[0]
                        continue
                    # final else
                    if not node.orelse:
                        self.fail(node, "option dispatch without an else branch")
                    done = self.block(node.orelse, optval, out)
                    if optval is None and not done:
                        self.fail(node, "the else branch of an option dispatch must raise")
                    break
                if done:
                    if not last:
                        pass     # statements after the dispatch are unreachable for this option only
                    return True
                continue
            if isinstance(s, ast.For):
                if s.orelse or not (isinstance(s.target, ast.Name) and isinstance(s.iter, ast.Name)
                                    and s.iter.id == self.listpar):
                    self.fail(s, "only  for d in <list parameter>:  loops are supported")
                d = self.alloc(s.target.id, "P")
                if d < self.npoints:
                    self.fail(s, "loop variable shadows a parameter")
                body = []
                for b in s.body:
                    if not self.simple(b, body, in_loop=True, loop_var=s.target.id):
                        self.fail(b, "statement not allowed inside a loop")
                out.append("ForEach %d [%s]" % (d, "; ".join(body)))
                continue
            if isinstance(s, ast.Return):
                if not last:
                    self.fail(s, "code after return")
                v = s.value
                elts = v.elts if isinstance(v, ast.Tuple) else [v]
                items = []
                for e in elts:
                    if not (isinstance(e, ast.Name) and e.id in self.vars and self.vars[e.id][0] in ("P", "X")):
                        self.fail(s, "return of something that is not a point / expression name")
                    srt, kk = self.vars[e.id]
                    items.append("%s %d" % ("RetP" if srt == "P" else "RetX", kk))
                out.append("Return [%s]" % "; ".join(items))
                return True
            if isinstance(s, ast.Raise):
                if not last:
                    self.fail(s, "code after raise")
                e = s.exc
                if not (isinstance(e, ast.Call) and isinstance(e.func, ast.Name) and e.func.id == "ValueError"):
                    self.fail(s, "only  raise ValueError(...)  is supported")
                out.append('Raise "ValueError"')
                return True
            buf = []
            if self.simple(s, buf):
                out.extend("I (%s)" % b for b in buf)
                continue
            self.fail(s, "statement outside the step grammar")
        return False

    def program(self, optval):
        self.aliased = set()
        out = []
        done = self.block(strip_doc(self.fn.body), optval, out)
        if not done:
            self.fail(self.fn, "the step does not end with return / raise")
        return out

    def table(self):
        def fmt(srt):
            return " ".join("%s=%d" % (n, k) for n, (s, k) in sorted(self.vars.items(), key=lambda kv: kv[1][1]) if s == srt)
        return ("point vars: %s | expression vars: %s | constraint vars: %s | functions: %s | scalars: %s%s"
                % (fmt("P"), fmt("X"), fmt("C"),
                   " ".join("%s=%d" % kv for kv in sorted(self.funs.items(), key=lambda kv: kv[1])),
                   " ".join("%s=%d" % kv for kv in sorted(self.scal.items(), key=lambda kv: kv[1])),
                   (" | list: %s" % self.listpar) if self.listpar else ""))


def translate_step(path, name):
    """-> (list of (coq definition name, option literal | None | '#invalid', [instr strings]), StepTr)"""
    with warnings.catch_warnings():
        warnings.simplefilter("ignore")       # invalid escape sequences in the docstrings
        tree = ast.parse(open(path).read(), path)
    body = strip_doc(tree.body)
    fns = []
    for n in body:
        if isinstance(n, ast.ImportFrom):
            for al in n.names:
                if (n.module, al.name) not in ALLOWED_IMPORTS or al.asname:
                    raise Untranslatable(n, "unexpected import %s.%s" % (n.module, al.name), path)
        elif isinstance(n, ast.FunctionDef):
            fns.append(n)
        else:
            raise Untranslatable(n, "unexpected module-level statement", path)
    if len(fns) != 1 or fns[0].name != name or fns[0].decorator_list:
        raise Untranslatable(tree, "expected exactly one function named %s" % name, path)
    tr = StepTr(fns[0], path)
    progs = []
    if tr.optpar is None:
        progs.append(("prog_%s" % name, None, tr.program(None)))
    else:
        lits = tr.option_literals()
        if not lits:
            raise Untranslatable(fns[0], "option parameter never tested", path)
        for lit in lits:
            if not lit.replace("_", "").isalnum():
                raise Untranslatable(fns[0], "option literal %r" % lit, path)
            progs.append(("prog_%s_%s" % (name, lit), lit, tr.program(lit)))
        progs.append(("prog_%s_invalid" % name, "#invalid", tr.program(None)))
        if tr.default is not None and tr.default not in lits:
            raise Untranslatable(fns[0], "default option is not one of the tested literals", path)
    return progs, tr


def translate():
    d = os.path.join(REPO, "PEPit", "primitive_steps")
    out = ["(* GENERATED by translator/tr_steps.py from PEPit/primitive_steps — do not edit, never committed *)",
           "From Coq Require Import List QArith String Bool.",
           "From PV Require Import Model.Dict Model.Terms Model.StepsRT.",
           "Import ListNotations.", "Local Open Scope string_scope.", ""]
    status = {}
    dispatch = []
    names = []
    files = sorted(f for f in os.listdir(d) if f.endswith(".py") and f != "__init__.py") if os.path.isdir(d) else []
    if not files:
        status["primitive_steps"] = "no step file found in %s" % d
    for fn in files:
        name = fn[:-3]
        path = os.path.join(d, fn)
        try:
            progs, tr = translate_step(path, name)
        except Untranslatable as e:
            status[name] = str(e)
            out.append("(* %s : UNTRANSLATABLE %s *)\n" % (name, str(e).replace("*)", "* )")))
            continue
        except SyntaxError as e:
            status[name] = "syntax error: %s" % e
            continue
        status[name] = True
        names.append(name)
        out.append("(* %s(%s)\n   %s *)" % (name, ", ".join(a.arg for a in tr.fn.args.args), tr.table()))
        for dn, lit, instrs in progs:
            out.append("Definition %s : program :=\n  [%s]." % (dn, ";\n   ".join(instrs)))
        if tr.optpar is None:
            dispatch.append((name, "prog_%s" % name))
        else:
            chain = "prog_%s_invalid" % name
            for dn, lit, _ in reversed(progs):
                if lit != "#invalid":
                    chain = 'if String.eqb opt "%s" then %s else %s' % (lit, dn, chain)
            dispatch.append((name, "(%s)" % chain))
            out.append('Definition default_%s : string := "%s".' % (name, tr.default if tr.default is not None else ""))
        out.append("")
    chain = "[]"
    for name, body in reversed(dispatch):
        chain = 'if String.eqb name "%s" then %s\n  else %s' % (name, body, chain)
    out.append("(* the program run by  <name>(..., <option parameter> = opt) *)")
    out.append("Definition step_program (name opt : string) : program :=\n  %s." % chain)
    out.append("Definition translated_steps : list string := [%s]." % "; ".join('"%s"' % n for n in names))
    return OUTPUT, "\n".join(out) + "\n", status


if __name__ == "__main__":
    fname, text, st = translate()
    print(text)
    print(st)
