"""pep2coq — Python-ast -> Gallina translator, run on every check from /repo's working tree.

Fail-closed: a construct outside the grammar (DESIGN.md appendix A) makes the item it belongs to
untranslatable; nothing is emitted for it (so every proof that mentions it stops compiling) and the
error, with source location, is returned to the driver.

Class grammar (functions/*.py, operators/*.py), beyond DESIGN.md appendix A.1 / A.2:
  * formula helpers (set_*): before `constraint = <comparison>` a sequence of named intermediates
    `name = <pure DSL expression>` (sort scalar / point / expression, built from the parameters, self.<param>,
    earlier names and the operators of A.1) is accepted and translated by SUBSTITUTION: the generated term is the one
    of the formula with every name inlined, so Gen/Classes.v does not move.  Rejected: a name assigned twice, a name
    equal to a parameter of the helper / `self` / `constraint` / a class-parameter name (L, mu, ...), tuple or
    attribute / subscript targets, augmented assignments, an intermediate that is a comparison, any statement after
    the constraint other than `return constraint`, any call.
  * the automatic stationary point: `if self.list_of_stationary_points == list():` or `== []:`.
  * BlockSmoothConvexFunction: string templates may be written "..{}..".format(a, b) or as the f-string with the
    same rendering (plain names, no conversion / format spec); the block loops may range over
    `range(self.partition.get_nb_blocks())` or `range(<local>)` where the local is assigned exactly once, at top
    level, from that call.
  * LMI blocks (A.2): `N = len(L); T = np.empty([N, N], ...); for i ..: for j ..: T[i, j] = <entry>` followed either
    by `psd = PSDMatrix(matrix_of_expressions=T); self.list_of_class_psd.append(psd)` -> plan item `LMI L entry` (the
    matrix is appended whatever N, the 0 x 0 one included), or by the same two statements under `if N > 0:` (N the
    very local bound to len(L)) -> `Guarded (GNonEmpty L) (LMI L entry)` (no LMI for an empty list).  The two forms
    behave differently and are translated to different plan items.
Everything else stays fail-closed.

Generated files (coq/Gen/, never committed):
  Classes.v   every class formula (cterm / xterm) and every add_class_constraints plan
  Steps.v     the 8 primitive steps as straight-line programs
  SolvePlan.v order of wrapper.send_* / set_class_constraints / ... in PEP._solve_with_wrapper
  Globals.v   class-level mutable attributes, and what _reset_classes resets
  Handlers.v  try/except shapes of eval / eval_dual
"""
import ast
import glob
import os
import sys
from fractions import Fraction

REPO = os.environ.get("PEPIT_REPO", "/repo")
VERIF = os.path.dirname(os.path.dirname(os.path.abspath(__file__)))
GEN = os.path.join(VERIF, "coq", "Gen")

PARAMS = {"L": 0, "mu": 1, "M": 2, "D": 3, "beta": 4, "rho": 5}
PAR_LK = 6
# point variables / expression variables (Model/ClassGen.v)
V_XI, V_GI, V_XJ, V_GJ, V_XS, V_V, V_GIK, V_GJK = range(8)
X_FI, X_FJ, X_FS = range(3)


class Untranslatable(Exception):
    def __init__(self, node, why, path=None):
        self.node, self.why, self.path = node, why, path
        loc = "%s:%s" % (path or "?", getattr(node, "lineno", "?"))
        super().__init__("%s: %s" % (loc, why))


def q_lit(v):
    f = Fraction(v)
    n, d = f.numerator, f.denominator
    return "(%s # %d)%%Q" % (("(%d)" % n) if n < 0 else str(n), d)


# --------------------------------------------------------------------------------- expressions
class Tr(object):
    """translate a Python expression over the variable table `env` (name -> (sort, coq term))"""

    def __init__(self, env, path, scalar_names=None):
        self.env = dict(env)
        self.path = path

    def fail(self, node, why):
        raise Untranslatable(node, why, self.path)

    def tr(self, n):
        if isinstance(n, ast.Constant):
            if isinstance(n.value, bool) or not isinstance(n.value, (int, float)):
                self.fail(n, "non-numeric constant")
            return "S", "(SNum %s)" % q_lit(n.value)
        if isinstance(n, ast.Name):
            if n.id not in self.env:
                self.fail(n, "unknown name %s" % n.id)
            return self.env[n.id]
        if isinstance(n, ast.Attribute):
            if isinstance(n.value, ast.Name) and n.value.id == "self":
                if n.attr == "v":
                    return "P", "(PVar %d)" % V_V
                if n.attr in PARAMS:
                    return "S", "(SPar %d)" % PARAMS[n.attr]
            self.fail(n, "unsupported attribute")
        if isinstance(n, ast.Subscript):
            # self.L[k]
            if (isinstance(n.value, ast.Attribute) and isinstance(n.value.value, ast.Name)
                    and n.value.value.id == "self" and n.value.attr == "L" and isinstance(n.slice, ast.Name)
                    and n.slice.id == "k"):
                return "S", "(SPar %d)" % PAR_LK
            self.fail(n, "unsupported subscript")
        if isinstance(n, ast.UnaryOp):
            if not isinstance(n.op, ast.USub):
                self.fail(n, "unsupported unary operator")
            s, t = self.tr(n.operand)
            return s, "(%s %s)" % ({"S": "SNeg", "P": "PNeg", "X": "XNeg"}[s], t)
        if isinstance(n, ast.BinOp):
            return self.binop(n)
        if isinstance(n, ast.Compare):
            return self.compare(n)
        self.fail(n, "unsupported expression node %s" % type(n).__name__)

    def binop(self, n):
        op = type(n.op).__name__
        if op == "Pow":
            ls, lt = self.tr(n.left)
            if not (isinstance(n.right, ast.Constant) and isinstance(n.right.value, int)
                    and not isinstance(n.right.value, bool) and n.right.value >= 0):
                self.fail(n, "exponent must be a literal natural number")
            k = n.right.value
            if ls == "P":
                if k != 2:
                    self.fail(n, "Point ** k only for k = 2")
                return "X", "(XSq %s)" % lt
            if ls == "S":
                return "S", "(SPow %s %d)" % (lt, k)
            self.fail(n, "** on an Expression")
        ls, lt = self.tr(n.left)
        rs, rt = self.tr(n.right)
        key = (ls, op, rs)
        table = {
            ("S", "Add", "S"): ("S", "(SAdd %s %s)"), ("S", "Sub", "S"): ("S", "(SSub %s %s)"),
            ("S", "Mult", "S"): ("S", "(SMul %s %s)"), ("S", "Div", "S"): ("S", "(SDiv %s %s)"),
            ("P", "Add", "P"): ("P", "(PAdd %s %s)"), ("P", "Sub", "P"): ("P", "(PSub %s %s)"),
            ("P", "Mult", "P"): ("X", "(XInner %s %s)"),
            ("P", "Div", "S"): ("P", "(PDiv %s %s)"),
            ("X", "Add", "X"): ("X", "(XAdd %s %s)"), ("X", "Sub", "X"): ("X", "(XSub %s %s)"),
            ("X", "Add", "S"): ("X", "(XAddS %s %s)"), ("X", "Sub", "S"): ("X", "(XSubS %s %s)"),
            ("S", "Sub", "X"): ("X", "(XSSub %s %s)"),
            ("X", "Div", "S"): ("X", "(XDiv %s %s)"),
        }
        if key in table:
            s, fmt = table[key]
            return s, fmt % (lt, rt)
        if key == ("S", "Mult", "P"):
            return "P", "(PScal %s %s)" % (lt, rt)
        if key == ("P", "Mult", "S"):
            return "P", "(PScal %s %s)" % (rt, lt)
        if key == ("S", "Mult", "X"):
            return "X", "(XScal %s %s)" % (lt, rt)
        if key == ("X", "Mult", "S"):
            return "X", "(XScal %s %s)" % (rt, lt)
        if key == ("S", "Add", "X"):
            return "X", "(XAddS %s %s)" % (rt, lt)
        self.fail(n, "operator %s on sorts %s,%s" % (op, ls, rs))

    def compare(self, n):
        if len(n.ops) != 1:
            self.fail(n, "chained comparison")
        op = type(n.ops[0]).__name__
        ls, lt = self.tr(n.left)
        rs, rt = self.tr(n.comparators[0])
        rel = {"LtE": "Le", "Lt": "Le", "GtE": "Ge", "Gt": "Ge", "Eq": "Eq"}.get(op)
        if rel is None:
            self.fail(n, "comparison %s" % op)
        if (ls, rs) == ("X", "X"):
            return "C", "(C%s %s %s)" % (rel, lt, rt)
        if (ls, rs) == ("X", "S"):
            return "C", "(C%sS %s %s)" % (rel, lt, rt)
        if (ls, rs) == ("S", "X"):
            return "C", "(CS%s %s %s)" % (rel, lt, rt)
        self.fail(n, "comparison between sorts %s,%s" % (ls, rs))


def strip_doc(body):
    if body and isinstance(body[0], ast.Expr) and isinstance(body[0].value, ast.Constant) \
            and isinstance(body[0].value.value, str):
        return body[1:]
    return body


def is_self_attr(n, attr=None):
    return isinstance(n, ast.Attribute) and isinstance(n.value, ast.Name) and n.value.id == "self" \
        and (attr is None or n.attr == attr)


def list_ref(n, path):
    if is_self_attr(n, "list_of_points"):
        return "LPoints"
    if is_self_attr(n, "list_of_stationary_points"):
        return "LStationary"
    if isinstance(n, ast.Attribute) and n.attr == "list_of_points" and is_self_attr(n.value, "T"):
        return "LTPoints"
    raise Untranslatable(n, "unknown list of points", path)


def stationary_local(stmt, env, path):
    """xs, _, fs = self.list_of_stationary_points[0]   |   xs = self.list_of_stationary_points[0][0]"""
    if not isinstance(stmt, ast.Assign) or len(stmt.targets) != 1:
        return False
    tgt, val = stmt.targets[0], stmt.value

    def first_stat(v):
        return isinstance(v, ast.Subscript) and is_self_attr(v.value, "list_of_stationary_points") \
            and isinstance(v.slice, ast.Constant) and v.slice.value == 0
    if isinstance(tgt, ast.Tuple) and len(tgt.elts) == 3 and first_stat(val):
        names = [e.id if isinstance(e, ast.Name) else None for e in tgt.elts]
        if None in names:
            raise Untranslatable(stmt, "bad unpacking target", path)
        if names[0] != "_":
            env[names[0]] = ("P", "(PVar %d)" % V_XS)
        if names[1] != "_":
            raise Untranslatable(stmt, "gradient of the stationary sample is not a formula variable", path)
        if names[2] != "_":
            env[names[2]] = ("X", "(XVar %d)" % X_FS)
        return True
    if isinstance(tgt, ast.Name) and isinstance(val, ast.Subscript) and first_stat(val.value) \
            and isinstance(val.slice, ast.Constant) and val.slice.value == 0:
        env[tgt.id] = ("P", "(PVar %d)" % V_XS)
        return True
    return False


def positional_env(names, first=True):
    """(x, g, f) names of sample i (first) or j"""
    x, g, f = names
    if first:
        return {x: ("P", "(PVar %d)" % V_XI), g: ("P", "(PVar %d)" % V_GI), f: ("X", "(XVar %d)" % X_FI)}
    return {x: ("P", "(PVar %d)" % V_XJ), g: ("P", "(PVar %d)" % V_GJ), f: ("X", "(XVar %d)" % X_FJ)}


def translate_formula_method(fn, path):
    args = [a.arg for a in fn.args.args]
    if args and args[0] == "self":
        args = args[1:]
    if len(args) not in (3, 6) or fn.args.vararg or fn.args.kwarg or fn.args.kwonlyargs:
        raise Untranslatable(fn, "formula method must take 3 or 6 sample arguments", path)
    env = positional_env(args[:3], True)
    if len(args) == 6:
        env.update(positional_env(args[3:], False))
    body = strip_doc(fn.body)
    result = None
    bound = set(env) | {"self", "constraint"}
    for k, stmt in enumerate(body):
        if result is None and isinstance(stmt, ast.Assign) and len(stmt.targets) == 1 \
                and isinstance(stmt.targets[0], (ast.Tuple, ast.Name)) and stationary_local(stmt, env, path):
            bound |= set(env)
            continue
        if isinstance(stmt, ast.Assign) and len(stmt.targets) == 1 and isinstance(stmt.targets[0], ast.Name) \
                and stmt.targets[0].id == "constraint":
            if result is not None:
                raise Untranslatable(stmt, "constraint assigned twice", path)
            s, t = Tr(env, path).tr(stmt.value)
            if s != "C":
                raise Untranslatable(stmt, "constraint is not a comparison", path)
            result = t
            continue
        # a named intermediate  name = <pure DSL expression>  (scalar, point or expression; the operators build new
        # objects and never mutate their operands, so the value of the name is the value of the expression at every
        # use): translated by SUBSTITUTION.  Each name is assigned once, before the constraint, and shadows nothing.
        if result is None and isinstance(stmt, ast.Assign) and len(stmt.targets) == 1 \
                and isinstance(stmt.targets[0], ast.Name):
            nm = stmt.targets[0].id
            if nm in bound or nm in PARAMS or nm == "_":
                raise Untranslatable(stmt, "local %s re-assigned or shadowing a parameter" % nm, path)
            s, t = Tr(env, path).tr(stmt.value)
            if s not in ("S", "P", "X"):
                raise Untranslatable(stmt, "a named intermediate must be a scalar, a point or an expression", path)
            env[nm] = (s, t)
            bound.add(nm)
            continue
        if isinstance(stmt, ast.Return) and isinstance(stmt.value, ast.Name) and stmt.value.id == "constraint" \
                and k == len(body) - 1 and result is not None:
            continue
        raise Untranslatable(stmt, "statement outside the formula grammar", path)
    if result is None:
        raise Untranslatable(fn, "no constraint built", path)
    return len(args), result


# --------------------------------------------------------------------------------- plans
def kw(call, name, path):
    for k in call.keywords:
        if k.arg == name:
            return k.value
    raise Untranslatable(call, "missing keyword %s" % name, path)


def unpack3(stmt, src_name, path):
    if isinstance(stmt, ast.Assign) and len(stmt.targets) == 1 and isinstance(stmt.targets[0], ast.Tuple) \
            and len(stmt.targets[0].elts) == 3 and isinstance(stmt.value, ast.Name) and stmt.value.id == src_name \
            and all(isinstance(e, ast.Name) for e in stmt.targets[0].elts):
        return [e.id for e in stmt.targets[0].elts]
    raise Untranslatable(stmt, "expected  a, b, c = %s" % src_name, path)


def translate_plan(cls, formulas, path):
    """formulas: method name -> (arity, coq name)"""
    fn = next((b for b in cls.body if isinstance(b, ast.FunctionDef) and b.name == "add_class_constraints"), None)
    if fn is None:
        raise Untranslatable(cls, "no add_class_constraints", path)
    body = strip_doc(fn.body)
    items = []
    extra_defs = []   # (coq name, sort, term) for inline LMI entries / cross equalities
    env_locals = {}
    cname = cls.name

    def gen_call(stmt):
        if not (isinstance(stmt, ast.Expr) and isinstance(stmt.value, ast.Call) and is_self_attr(stmt.value.func)):
            return None
        call = stmt.value
        if call.args:
            raise Untranslatable(call, "positional arguments in generator call", path)
        m = call.func.attr
        if m == "add_constraints_from_two_lists_of_points":
            allowed = {"list_of_points_1", "list_of_points_2", "constraint_name", "set_class_constraint_i_j", "symmetry"}
            if {k.arg for k in call.keywords} - allowed:
                raise Untranslatable(call, "unknown keyword", path)
            l1 = list_ref(kw(call, "list_of_points_1", path), path)
            l2 = list_ref(kw(call, "list_of_points_2", path), path)
            nm = kw(call, "constraint_name", path)
            f = kw(call, "set_class_constraint_i_j", path)
            sym = "false"
            for k in call.keywords:
                if k.arg == "symmetry":
                    if not (isinstance(k.value, ast.Constant) and isinstance(k.value.value, bool)):
                        raise Untranslatable(call, "symmetry must be a literal", path)
                    sym = "true" if k.value.value else "false"
            if not (isinstance(nm, ast.Constant) and isinstance(nm.value, str)):
                raise Untranslatable(call, "constraint_name must be a literal", path)
            if not (is_self_attr(f) and f.attr in formulas and formulas[f.attr][0] == 6):
                raise Untranslatable(call, "unknown pair formula", path)
            return 'Pairs %s %s "%s" %s %s' % (l1, l2, nm.value, formulas[f.attr][1], sym)
        if m == "add_constraints_from_one_list_of_points":
            allowed = {"list_of_points", "constraint_name", "set_class_constraint_i"}
            if {k.arg for k in call.keywords} - allowed:
                raise Untranslatable(call, "unknown keyword", path)
            l = list_ref(kw(call, "list_of_points", path), path)
            nm = kw(call, "constraint_name", path)
            f = kw(call, "set_class_constraint_i", path)
            if not (isinstance(nm, ast.Constant) and isinstance(nm.value, str)):
                raise Untranslatable(call, "constraint_name must be a literal", path)
            if not (is_self_attr(f) and f.attr in formulas and formulas[f.attr][0] == 3):
                raise Untranslatable(call, "unknown single-point formula", path)
            return 'Singles %s "%s" %s' % (l, nm.value, formulas[f.attr][1])
        return None

    i = 0
    n_lmi = 0
    while i < len(body):
        stmt = body[i]
        g = gen_call(stmt)
        if g is not None:
            items.append(g)
            i += 1
            continue
        if isinstance(stmt, ast.If) and not stmt.orelse:
            t = stmt.test
            # if self.<p> != np.inf:
            if isinstance(t, ast.Compare) and len(t.ops) == 1 and isinstance(t.ops[0], ast.NotEq) \
                    and is_self_attr(t.left) and t.left.attr in PARAMS \
                    and isinstance(t.comparators[0], ast.Attribute) and t.comparators[0].attr == "inf":
                for s2 in stmt.body:
                    g2 = gen_call(s2)
                    if g2 is None:
                        raise Untranslatable(s2, "only generator calls inside a guard", path)
                    items.append("Guarded (GParFinite %d) (%s)" % (PARAMS[t.left.attr], g2))
                i += 1
                continue
            # if self.v is not None:
            if isinstance(t, ast.Compare) and len(t.ops) == 1 and isinstance(t.ops[0], ast.IsNot) \
                    and is_self_attr(t.left, "v") and isinstance(t.comparators[0], ast.Constant) \
                    and t.comparators[0].value is None:
                for s2 in stmt.body:
                    g2 = gen_call(s2)
                    if g2 is None:
                        raise Untranslatable(s2, "only generator calls inside a guard", path)
                    items.append("Guarded GHasV (%s)" % g2)
                i += 1
                continue
            # if self.list_of_stationary_points == list(): self.stationary_point()
            if isinstance(t, ast.Compare) and len(t.ops) == 1 and isinstance(t.ops[0], ast.Eq) \
                    and is_self_attr(t.left, "list_of_stationary_points") \
                    and ((isinstance(t.comparators[0], ast.Call) and isinstance(t.comparators[0].func, ast.Name)
                          and t.comparators[0].func.id == "list" and not t.comparators[0].args
                          and not t.comparators[0].keywords)
                         or (isinstance(t.comparators[0], ast.List) and not t.comparators[0].elts)) \
                    and len(stmt.body) == 1 and isinstance(stmt.body[0], ast.Expr) \
                    and isinstance(stmt.body[0].value, ast.Call) and is_self_attr(stmt.body[0].value.func, "stationary_point") \
                    and not stmt.body[0].value.args and not stmt.body[0].value.keywords:
                items.append("AutoStationary")
                i += 1
                continue
            raise Untranslatable(stmt, "unsupported guard", path)
        if stationary_local(stmt, env_locals, path):
            i += 1
            continue
        # LMI block:  N = len(L); T = np.empty(...); for i, point_i in enumerate(L): ...; psd = PSDMatrix(matrix_of_expressions=T); self.list_of_class_psd.append(psd)
        if isinstance(stmt, ast.Assign) and isinstance(stmt.value, ast.Call) and isinstance(stmt.value.func, ast.Name) \
                and stmt.value.func.id == "len" and i + 3 < len(body):
            lname = list_ref(stmt.value.args[0], path)
            nvar = stmt.targets[0].id
            s_empty, s_for = body[i + 1:i + 3]
            # the PSDMatrix + append pair, either bare (the matrix is appended whatever N, 0 x 0 included) or guarded by
            # `if <N> > 0:` with <N> the local bound to len(<the list the loops range over>) (no LMI for an empty list)
            guarded = False
            nxt = body[i + 3]
            if isinstance(nxt, ast.If):
                t = nxt.test
                if not (not nxt.orelse and isinstance(t, ast.Compare) and len(t.ops) == 1 and isinstance(t.ops[0], ast.Gt)
                        and isinstance(t.left, ast.Name) and t.left.id == nvar
                        and isinstance(t.comparators[0], ast.Constant) and t.comparators[0].value == 0
                        and not isinstance(t.comparators[0].value, bool) and len(nxt.body) == 2):
                    raise Untranslatable(nxt, "expected  if %s > 0:  guarding PSDMatrix(...) and its append" % nvar, path)
                s_psd, s_app = nxt.body
                guarded = True
                consumed = 4
            else:
                if i + 4 >= len(body):
                    raise Untranslatable(stmt, "incomplete LMI block", path)
                s_psd, s_app = body[i + 3:i + 5]
                consumed = 5
            if not (isinstance(s_empty, ast.Assign) and isinstance(s_empty.value, ast.Call)
                    and isinstance(s_empty.value.func, ast.Attribute) and s_empty.value.func.attr == "empty"):
                raise Untranslatable(s_empty, "expected T = np.empty(...)", path)
            tname = s_empty.targets[0].id
            shp = s_empty.value.args[0]
            if not (isinstance(shp, (ast.Tuple, ast.List)) and len(shp.elts) == 2
                    and all(isinstance(e, ast.Name) and e.id == nvar for e in shp.elts)):
                raise Untranslatable(s_empty, "LMI must be N x N", path)
            entry = lmi_loop(s_for, lname, tname, dict(env_locals), path)
            if not (isinstance(s_psd, ast.Assign) and isinstance(s_psd.value, ast.Call)
                    and isinstance(s_psd.value.func, ast.Name) and s_psd.value.func.id == "PSDMatrix"
                    and len(s_psd.value.keywords) == 1 and s_psd.value.keywords[0].arg == "matrix_of_expressions"
                    and isinstance(s_psd.value.keywords[0].value, ast.Name)
                    and s_psd.value.keywords[0].value.id == tname and not s_psd.value.args):
                raise Untranslatable(s_psd, "expected PSDMatrix(matrix_of_expressions=T)", path)
            pname = s_psd.targets[0].id
            if not (isinstance(s_app, ast.Expr) and isinstance(s_app.value, ast.Call)
                    and isinstance(s_app.value.func, ast.Attribute) and s_app.value.func.attr == "append"
                    and is_self_attr(s_app.value.func.value, "list_of_class_psd")
                    and len(s_app.value.args) == 1 and isinstance(s_app.value.args[0], ast.Name)
                    and s_app.value.args[0].id == pname):
                raise Untranslatable(s_app, "expected self.list_of_class_psd.append(psd)", path)
            n_lmi += 1
            dn = "lmi_%s_%d" % (cname, n_lmi)
            extra_defs.append((dn, "xterm", entry))
            if guarded:
                items.append("Guarded (GNonEmpty %s) (LMI %s %s)" % (lname, lname, dn))
            else:
                items.append("LMI %s %s" % (lname, dn))
            i += consumed
            continue
        raise Untranslatable(stmt, "statement outside the plan grammar", path)
    return items, extra_defs


def lmi_loop(s_for, lname, tname, env, path):
    """for i, point_i in enumerate(L): xi, gi, fi = point_i; for j, point_j in enumerate(L): xj, gj, fj = point_j; T[i, j] = e"""
    def enum_over(f):
        return (isinstance(f, ast.For) and not f.orelse and isinstance(f.target, ast.Tuple) and len(f.target.elts) == 2
                and all(isinstance(e, ast.Name) for e in f.target.elts)
                and isinstance(f.iter, ast.Call) and isinstance(f.iter.func, ast.Name) and f.iter.func.id == "enumerate"
                and len(f.iter.args) == 1 and list_ref(f.iter.args[0], path) == lname)
    if not enum_over(s_for) or len(s_for.body) != 2:
        raise Untranslatable(s_for, "unsupported LMI loop", path)
    iv, pv = [e.id for e in s_for.target.elts]
    n1 = unpack3(s_for.body[0], pv, path)
    inner = s_for.body[1]
    if not enum_over(inner) or len(inner.body) != 2:
        raise Untranslatable(inner, "unsupported inner LMI loop", path)
    jv, qv = [e.id for e in inner.target.elts]
    n2 = unpack3(inner.body[0], qv, path)
    asg = inner.body[1]
    if not (isinstance(asg, ast.Assign) and len(asg.targets) == 1 and isinstance(asg.targets[0], ast.Subscript)
            and isinstance(asg.targets[0].value, ast.Name) and asg.targets[0].value.id == tname
            and isinstance(asg.targets[0].slice, ast.Tuple) and len(asg.targets[0].slice.elts) == 2
            and [getattr(e, "id", None) for e in asg.targets[0].slice.elts] == [iv, jv]):
        raise Untranslatable(asg, "expected T[i, j] = <expression>", path)
    env.update(positional_env(n1, True))
    env.update(positional_env(n2, False))
    s, t = Tr(env, path).tr(asg.value)
    if s != "X":
        raise Untranslatable(asg, "LMI entry is not an Expression", path)
    return t


def ctor_info(cls, path):
    """forced reuse_gradient, parameters stored, constructor side effects"""
    init = next((b for b in cls.body if isinstance(b, ast.FunctionDef) and b.name == "__init__"), None)
    info = dict(force_reuse=False, params=[], ctor_stationary=False, has_T=False, has_v=False)
    if init is None:
        raise Untranslatable(cls, "no __init__", path)
    for n in ast.walk(init):
        if isinstance(n, ast.Call) and isinstance(n.func, ast.Attribute) and n.func.attr == "__init__":
            for k in n.keywords:
                if k.arg == "reuse_gradient":
                    if isinstance(k.value, ast.Constant) and k.value.value is True:
                        info["force_reuse"] = True
                    elif isinstance(k.value, ast.Name) and k.value.id == "reuse_gradient":
                        info["force_reuse"] = False
                    else:
                        raise Untranslatable(n, "unsupported reuse_gradient argument", path)
        if isinstance(n, ast.Assign) and len(n.targets) == 1 and is_self_attr(n.targets[0]):
            a = n.targets[0].attr
            if a in PARAMS:
                info["params"].append(PARAMS[a])
            elif a == "T":
                info["has_T"] = True
            elif a == "v":
                info["has_v"] = True
        if isinstance(n, ast.Call) and isinstance(n.func, ast.Attribute) and n.func.attr == "stationary_point" \
                and isinstance(n.func.value, ast.Call) and isinstance(n.func.value.func, ast.Name) \
                and n.func.value.func.id == "super":
            info["ctor_stationary"] = True
    return info


def translate_classes():
    """returns (coq text, status dict class -> True | error string, list of class names translated)"""
    out = ["(* GENERATED by translator/pep2coq.py from /repo — do not edit, never committed *)",
           "From Coq Require Import List QArith String Bool.",
           "From PV Require Import Model.Dict Model.Terms Model.ClassGen.",
           "Import ListNotations.", "Local Open Scope string_scope.", ""]
    status = {}
    names = []
    files = sorted(glob.glob(os.path.join(REPO, "PEPit", "functions", "*.py")) +
                   glob.glob(os.path.join(REPO, "PEPit", "operators", "*.py")))
    for path in files:
        if os.path.basename(path) == "__init__.py":
            continue
        try:
            tree = ast.parse(open(path).read(), path)
        except SyntaxError as e:
            status[os.path.basename(path)] = "syntax error: %s" % e
            continue
        for cls in tree.body:
            if not isinstance(cls, ast.ClassDef):
                continue
            if cls.name == "BlockSmoothConvexFunction":
                try:
                    out += translate_block_smooth(cls, path)
                    status[cls.name] = True
                    names.append(cls.name)
                except Untranslatable as e:
                    status[cls.name] = str(e)
                    out.append("(* %s : UNTRANSLATABLE %s *)" % (cls.name, str(e).replace("*)", "* )")))
                continue
            chunk = []
            try:
                formulas = {}
                for b in cls.body:
                    if isinstance(b, ast.FunctionDef) and b.name.startswith("set_"):
                        ar, t = translate_formula_method(b, path)
                        cn = "f_%s_%s" % (cls.name, b.name[4:])
                        formulas[b.name] = (ar, cn)
                        chunk.append("Definition %s : cterm :=\n  %s." % (cn, t))
                items, extra = translate_plan(cls, formulas, path)
                for dn, ty, t in extra:
                    chunk.append("Definition %s : %s :=\n  %s." % (dn, ty, t))
                info = ctor_info(cls, path)
                chunk.append("Definition plan_%s : list plan_item :=\n  [%s]." % (cls.name, ";\n   ".join(items)))
                chunk.append("Definition force_reuse_%s : bool := %s." % (cls.name, "true" if info["force_reuse"] else "false"))
                chunk.append("Definition ctor_stationary_%s : bool := %s." % (cls.name, "true" if info["ctor_stationary"] else "false"))
                chunk.append("Definition params_%s : list nat := [%s]." % (cls.name, "; ".join("%d%%nat" % k for k in sorted(set(info["params"])))))
                out += chunk + [""]
                status[cls.name] = True
                names.append(cls.name)
            except Untranslatable as e:
                status[cls.name] = str(e)
                out.append("(* %s : UNTRANSLATABLE %s *)" % (cls.name, str(e).replace("*)", "* )")))
    out.append("Definition translated_classes : list string := [%s]." % "; ".join('"%s"' % n for n in names))
    out.append("Definition all_plans : list (string * list plan_item) :=\n  [%s]." %
               ";\n   ".join('("%s", plan_%s)' % (n, n) for n in names))
    return "\n".join(out) + "\n", status


def fmt_template(n):
    """"IC_{}_{}".format(a, b)  |  f"IC_{a}_{b}"  ->  ("IC_{}_{}", ["a", "b"]); None for anything else
    (arguments must be plain names; no conversion, no format spec, no literal braces)"""
    if isinstance(n, ast.Call) and isinstance(n.func, ast.Attribute) and n.func.attr == "format" \
            and isinstance(n.func.value, ast.Constant) and isinstance(n.func.value.value, str) \
            and not n.keywords and all(isinstance(a, ast.Name) for a in n.args):
        tpl = n.func.value.value
        if tpl.replace("{}", "").count("{") or tpl.replace("{}", "").count("}") or tpl.count("{}") != len(n.args):
            return None
        return tpl, [a.id for a in n.args]
    if isinstance(n, ast.JoinedStr):
        tpl, args = "", []
        for v in n.values:
            if isinstance(v, ast.Constant) and isinstance(v.value, str):
                if "{" in v.value or "}" in v.value:
                    return None
                tpl += v.value
            elif isinstance(v, ast.FormattedValue) and v.conversion == -1 and v.format_spec is None \
                    and isinstance(v.value, ast.Name):
                tpl += "{}"
                args.append(v.value.id)
            else:
                return None
        return tpl, args
    return None


def translate_block_smooth(cls, path):
    """BlockSmoothConvexFunction hand-rolls its loops: the loop nest is checked statement by statement and
    emitted as the plan item [BlockPairs <condition-name prefix> <formula>]; the formula is extracted."""
    import re
    fn = next((b for b in cls.body if isinstance(b, ast.FunctionDef) and b.name == "add_class_constraints"), None)
    if fn is None:
        raise Untranslatable(cls, "no add_class_constraints", path)
    body = strip_doc(fn.body)

    def enum_points(f):
        return (isinstance(f, ast.For) and not f.orelse and isinstance(f.target, ast.Tuple) and len(f.target.elts) == 2
                and all(isinstance(e, ast.Name) for e in f.target.elts)
                and isinstance(f.iter, ast.Call) and isinstance(f.iter.func, ast.Name) and f.iter.func.id == "enumerate"
                and len(f.iter.args) == 1 and is_self_attr(f.iter.args[0], "list_of_points"))

    def point_id_stmts(stmts, xname, idname, ivar):
        """xi_id = xi.get_name(); if xi_id is None: xi_id = "Point_{}".format(i)"""
        if len(stmts) != 2:
            return False
        a, b = stmts
        ok1 = (isinstance(a, ast.Assign) and len(a.targets) == 1 and isinstance(a.targets[0], ast.Name)
               and a.targets[0].id == idname and isinstance(a.value, ast.Call) and isinstance(a.value.func, ast.Attribute)
               and a.value.func.attr == "get_name" and isinstance(a.value.func.value, ast.Name)
               and a.value.func.value.id == xname and not a.value.args and not a.value.keywords)
        ok2 = (isinstance(b, ast.If) and not b.orelse and isinstance(b.test, ast.Compare) and len(b.test.ops) == 1
               and isinstance(b.test.ops[0], ast.Is) and isinstance(b.test.left, ast.Name) and b.test.left.id == idname
               and isinstance(b.test.comparators[0], ast.Constant) and b.test.comparators[0].value is None
               and len(b.body) == 1 and isinstance(b.body[0], ast.Assign) and len(b.body[0].targets) == 1
               and isinstance(b.body[0].targets[0], ast.Name) and b.body[0].targets[0].id == idname
               and fmt_template(b.body[0].value) == ("Point_{}", [ivar]))
        return ok1 and ok2

    def table_append(s, kvar, ivar, what):
        """tables_of_constraints[k][i].append(<what>)   what: 0 or the name 'constraint'"""
        if not (isinstance(s, ast.Expr) and isinstance(s.value, ast.Call) and isinstance(s.value.func, ast.Attribute)
                and s.value.func.attr == "append" and len(s.value.args) == 1 and not s.value.keywords):
            return False
        tgt = s.value.func.value
        if not (isinstance(tgt, ast.Subscript) and isinstance(tgt.slice, ast.Name) and tgt.slice.id == ivar
                and isinstance(tgt.value, ast.Subscript) and isinstance(tgt.value.slice, ast.Name)
                and tgt.value.slice.id == kvar and isinstance(tgt.value.value, ast.Name)):
            return False
        a = s.value.args[0]
        if what == 0:
            return isinstance(a, ast.Constant) and a.value == 0 and not isinstance(a.value, bool)
        return isinstance(a, ast.Name) and a.id == what

    def nb_blocks_call(a):
        return (isinstance(a, ast.Call) and isinstance(a.func, ast.Attribute) and a.func.attr == "get_nb_blocks"
                and is_self_attr(a.func.value, "partition") and not a.args and not a.keywords)

    # locals holding the number of blocks: assigned exactly once, at top level, from self.partition.get_nb_blocks()
    assigned = {}
    for n in ast.walk(fn):
        tgts = []
        if isinstance(n, ast.Assign):
            tgts = n.targets
        elif isinstance(n, (ast.AugAssign, ast.AnnAssign)):
            tgts = [n.target]
        for t in tgts:
            for nm in ast.walk(t):
                if isinstance(nm, ast.Name):
                    assigned.setdefault(nm.id, []).append(n)
    nb_locals = set()
    for stmt in body:
        if isinstance(stmt, ast.Assign) and len(stmt.targets) == 1 and isinstance(stmt.targets[0], ast.Name) \
                and nb_blocks_call(stmt.value) and assigned.get(stmt.targets[0].id) == [stmt]:
            nb_locals.add(stmt.targets[0].id)

    def range_blocks(f):
        """for k in range(self.partition.get_nb_blocks())  |  for k in range(<local assigned once from that call>)"""
        if not (isinstance(f, ast.For) and not f.orelse and isinstance(f.target, ast.Name)
                and isinstance(f.iter, ast.Call) and isinstance(f.iter.func, ast.Name) and f.iter.func.id == "range"
                and len(f.iter.args) == 1 and not f.iter.keywords):
            return False
        a = f.iter.args[0]
        if isinstance(a, ast.Name):
            return a.id in nb_locals
        return nb_blocks_call(a)

    fors = [s for s in body if isinstance(s, ast.For) and enum_points(s)]
    if len(fors) != 1:
        raise Untranslatable(fn, "expected exactly one top-level loop enumerating self.list_of_points", path)
    outer = fors[0]
    # every other top-level statement may only build names / tables (no constraint is created outside the loop)
    key_fmt = None
    for s in body:
        if s is outer:
            continue
        for n in ast.walk(s):
            if isinstance(n, ast.Compare) and not isinstance(n.ops[0], (ast.Is, ast.IsNot, ast.NotEq)):
                raise Untranslatable(n, "comparison outside the double loop", path)
            if isinstance(n, ast.Attribute) and n.attr in ("list_of_class_constraints", "list_of_class_psd",
                                                           "list_of_constraints", "list_of_psd"):
                raise Untranslatable(n, "constraint list touched outside the double loop", path)
            if isinstance(n, ast.Assign) and len(n.targets) == 1 and isinstance(n.targets[0], ast.Subscript) \
                    and is_self_attr(n.targets[0].value, "tables_of_constraints"):
                k = n.targets[0].slice
                ft = fmt_template(k)
                if ft is None or len(ft[1]) != 1 or key_fmt is not None:
                    raise Untranslatable(n, "unsupported table key", path)
                key_fmt = ft[0]
    iv, pv = [e.id for e in outer.target.elts]
    if len(outer.body) != 4:
        raise Untranslatable(outer, "outer loop body: unpack, point id (2 statements), inner loop", path)
    n1 = unpack3(outer.body[0], pv, path)
    if not point_id_stmts(outer.body[1:3], n1[0], "xi_id", iv):
        raise Untranslatable(outer.body[1], "expected xi_id = xi.get_name() / Point_{i}", path)
    inner = outer.body[3]
    if not enum_points(inner) or len(inner.body) != 4:
        raise Untranslatable(inner, "inner loop must enumerate self.list_of_points (unpack, point id, if/else)", path)
    jv, qv = [e.id for e in inner.target.elts]
    n2 = unpack3(inner.body[0], qv, path)
    if not point_id_stmts(inner.body[1:3], n2[0], "xj_id", jv):
        raise Untranslatable(inner.body[1], "expected xj_id = xj.get_name() / Point_{j}", path)
    cond = inner.body[3]
    # the skip test is the identity of the two triplet objects (`is`), as in the generic generators; tuple
    # equality (`==`, which compares the function values with the overloaded Expression.__eq__) is refused
    if not (isinstance(cond, ast.If) and isinstance(cond.test, ast.Compare) and len(cond.test.ops) == 1
            and isinstance(cond.test.ops[0], ast.Is) and isinstance(cond.test.left, ast.Name)
            and cond.test.left.id == pv and isinstance(cond.test.comparators[0], ast.Name)
            and cond.test.comparators[0].id == qv and cond.orelse):
        raise Untranslatable(cond, "expected  if point_i is point_j: ... else: ...", path)
    # then-branch: for k in range(nb): tables[k][i].append(0)
    if not (len(cond.body) == 1 and range_blocks(cond.body[0]) and len(cond.body[0].body) == 1
            and table_append(cond.body[0].body[0], cond.body[0].target.id, iv, 0)):
        raise Untranslatable(cond, "then-branch must only append 0 to the tables", path)
    if not (len(cond.orelse) == 1 and range_blocks(cond.orelse[0])):
        raise Untranslatable(cond, "expected a loop over blocks in the else branch", path)
    kloop = cond.orelse[0]
    kv = kloop.target.id
    if len(kloop.body) != 6:
        raise Untranslatable(kloop, "block loop body: gik, gjk, constraint, set_name, table append, list append", path)
    s_gik, s_gjk, s_con, s_name, s_tab, s_app = kloop.body
    blocks = {}
    for s in (s_gik, s_gjk):
        if not (isinstance(s, ast.Assign) and len(s.targets) == 1 and isinstance(s.targets[0], ast.Name)
                and isinstance(s.value, ast.Call) and isinstance(s.value.func, ast.Attribute)
                and s.value.func.attr == "get_block" and is_self_attr(s.value.func.value, "partition")
                and not s.value.keywords):
            raise Untranslatable(s, "expected gik/gjk = self.partition.get_block(gi/gj, k)", path)
        blocks[s.targets[0].id] = [getattr(a, "id", None) for a in s.value.args]
    if blocks != {"gik": [n1[1], kv], "gjk": [n2[1], kv]}:
        raise Untranslatable(kloop, "expected gik/gjk = get_block(gi/gj, k)", path)
    if not (isinstance(s_con, ast.Assign) and len(s_con.targets) == 1 and isinstance(s_con.targets[0], ast.Name)
            and s_con.targets[0].id == "constraint"):
        raise Untranslatable(s_con, "expected constraint = <comparison>", path)
    env = positional_env(n1, True)
    env.update(positional_env(n2, False))
    env["gik"] = ("P", "(PVar %d)" % V_GIK)
    env["gjk"] = ("P", "(PVar %d)" % V_GJK)
    sort, formula = Tr(env, path).tr(s_con.value)
    if sort != "C":
        raise Untranslatable(s_con, "not a comparison", path)
    # constraint.set_name("IC_{}_<prefix>{}({}, {})".format(function_id, k, xi_id, xj_id))
    c = s_name.value if isinstance(s_name, ast.Expr) else None
    if not (isinstance(c, ast.Call) and isinstance(c.func, ast.Attribute) and c.func.attr == "set_name"
            and isinstance(c.func.value, ast.Name) and c.func.value.id == "constraint" and len(c.args) == 1
            and not c.keywords and fmt_template(c.args[0]) is not None):
        raise Untranslatable(s_name, "expected constraint.set_name(<format>.format(...))", path)
    name_tpl, name_args = fmt_template(c.args[0])
    m = re.match(r"^IC_\{\}_([A-Za-z0-9_]*)\{\}\(\{\}, \{\}\)$", name_tpl)
    if not m or name_args != ["function_id", kv, "xi_id", "xj_id"]:
        raise Untranslatable(s_name, "name must be IC_{function_id}_<prefix>{k}({xi_id}, {xj_id})", path)
    prefix = m.group(1)
    if key_fmt != prefix + "{}":
        raise Untranslatable(fn, "table key %r does not match the constraint-name prefix %r" % (key_fmt, prefix), path)
    if not table_append(s_tab, kv, iv, "constraint"):
        raise Untranslatable(s_tab, "expected tables_of_constraints[k][i].append(constraint)", path)
    if not (isinstance(s_app, ast.Expr) and isinstance(s_app.value, ast.Call)
            and isinstance(s_app.value.func, ast.Attribute) and s_app.value.func.attr == "append"
            and is_self_attr(s_app.value.func.value, "list_of_class_constraints") and len(s_app.value.args) == 1
            and isinstance(s_app.value.args[0], ast.Name) and s_app.value.args[0].id == "constraint"):
        raise Untranslatable(s_app, "expected self.list_of_class_constraints.append(constraint)", path)
    info = ctor_info(cls, path)
    return ["Definition f_BlockSmoothConvexFunction_smoothness_convexity_block : cterm :=\n  %s." % formula,
            "Definition plan_BlockSmoothConvexFunction : list plan_item :=\n  [BlockPairs \"%s\" f_BlockSmoothConvexFunction_smoothness_convexity_block]." % prefix,
            "Definition force_reuse_BlockSmoothConvexFunction : bool := %s." % ("true" if info["force_reuse"] else "false"),
            ""]


def write_if_changed(path, text):
    os.makedirs(os.path.dirname(path), exist_ok=True)
    if os.path.exists(path) and open(path).read() == text:
        return False
    with open(path, "w") as f:
        f.write(text)
    return True


def regenerate():
    """regenerate every Gen/*.v; returns {file:item -> True | error string}.
    Gen/Classes.v is produced here; every other generated file by a plug-in module translator/tr_<name>.py
    exposing translate() -> (file name, Coq text, {item: True | error string})."""
    import importlib
    status = {}
    text, st = translate_classes()
    write_if_changed(os.path.join(GEN, "Classes.v"), text)
    for k, v in st.items():
        status["Classes.v:" + k] = v
    here = os.path.dirname(os.path.abspath(__file__))
    for fn in sorted(os.listdir(here)):
        if not (fn.startswith("tr_") and fn.endswith(".py")):
            continue
        name = fn[:-3]
        try:
            mod = importlib.import_module("translator." + name)
            fname, text, st = mod.translate()
            write_if_changed(os.path.join(GEN, fname), text)
            status[fname] = True
            for k, v in st.items():
                status[fname + ":" + k] = v
        except Exception as e:   # fail closed: the file keeps no stale content
            status[name] = "translator crashed: %r" % (e,)
            try:
                stale = getattr(importlib.import_module("translator." + name), "OUTPUT", None)
                if stale and os.path.exists(os.path.join(GEN, stale)):
                    os.remove(os.path.join(GEN, stale))
            except Exception:
                pass
    return status


if __name__ == "__main__":
    st = regenerate()
    bad = {k: v for k, v in st.items() if v is not True}
    print("%d items translated, %d failed" % (len(st) - len(bad), len(bad)))
    for k, v in bad.items():
        print("  ", k, v)
