def regenerate():
    return {}
