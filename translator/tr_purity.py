"""tr_purity — "operations never alter their operands" as an obligation over the SOURCE -> coq/Gen/Purity.v  (C06).

Analysed functions (closed under "calls a method of a DSL class on a possible operand"):
  * every method of class Point (PEPit/point.py) and class Expression (PEPit/expression.py) whose name is an operator
    dunder (binary, reflected, IN-PLACE, unary, comparison: OPERATOR_DUNDERS), whether or not it exists today;
  * `__init__` of Point, Expression and Constraint (PEPit/constraint.py): there `self` is the object under
    construction (fresh), every other parameter is an operand;
  * the helpers merge_dict, prune_dict, multiply_dicts, symmetrize_dict of PEPit/tools/dict_operations.py;
  * every other method of those three classes that an analysed function calls on a possible operand (get_is_leaf ...).

Abstract value of an expression / local name (flow-insensitive, iterated to a fixpoint; join of two different non-N = A):
  N  immutable / not a container: constants, results of isinstance/type/len/..., `is`/`in`/`not`, str methods on a literal
  G  a global name (class, module, builtin) and what is reached from it by attribute / subscript
  F  FRESH object owned by this call: {} [] () set/dict/list displays (also with ** / *), comprehensions, generator
     expressions, dict(..) list(..) set(..) tuple(..) sorted(..) frozenset(..), x.copy(), copy.copy(x), copy.deepcopy(x),
     a call of an analysed helper whose every `return` is F or N, a call of Point(..) / Expression(..) / Constraint(..),
     `self` inside __init__
  R  result of an arithmetic / comparison operator with a non-N operand (dispatches to an analysed operator method, or to
     an immutable number; may BE an operand when a method returns `self`): like A, except that `name <op>= ..` on it is
     a rebinding or a call of an analysed in-place dunder
  A  possible operand-owned object: every parameter; attribute / subscript / element (loop or comprehension variable,
     unpacking, .get/.keys/.values/.items/min/max/next/...) of A, R or F; result of a method call on A/R/F; result of
     any unanalysed call; `a or b` / `a if c else b` by join
Items emitted:
  PWrite WSubscript   x[k] = ..  /  x[k] <op>= ..         base x is A or R
  PWrite WAttribute   x.a = ..   /  x.a <op>= ..          base x is A or R
  PWrite WDelete      del x[k]   /  del x.a               base x is A or R
  PWrite WAugmented   name <op>= ..                       name is A (in-place |=, += on a possible operand container)
  PWrite WMutatingCall  x.m(..), m in MUTATORS, x is A or R;  Cls.m(x, ..) with a non-N/G argument
  PWrite WEscape      an A / R / F value handed to a function outside the analysed set and the pure built-ins
  PGlobal             Cls.attr = / <op>= .. on a bare global name;  <global chain>.append(..)-style registry update
                      (class-level state, not an operand: informational, accepted; process state is C12's subject)
  POther              everything outside this grammar: nested def / lambda / class, global / nonlocal, import inside a
                      function, yield / await / async, match, exec / eval / setattr / delattr / getattr / vars / globals /
                      locals / __import__ / compile, star-arguments carrying a non-N/G value, unknown method on a possible
                      operand, write through a G chain other than the two PGlobal forms, write through N, decorators,
                      base classes other than object, metaclass keywords, operator dunders bound by a class-body
                      assignment to anything but another method of the class, class-body statements other than docstring /
                      def / plain assignment, decorated methods (@property ..) and attribute hooks (__getattr__, __setattr__,
                      __new__ ..) anywhere in the three classes, `Cls.x = ..` / setattr at module level, a helper or class
                      name bound twice at module level (also under if / try), a missing class / helper.
Also emitted: `analysed` (owner, function) for every analysed function, and `helper_returns_fresh` (helper, bool).
"""
import ast
import os

REPO = os.environ.get("PEPIT_REPO", "/repo")
OUTPUT = "Purity.v"

N, G, F, R, A = "N", "G", "F", "R", "A"

CLASS_FILES = [("Point", "PEPit.point", os.path.join("PEPit", "point.py")),
               ("Expression", "PEPit.expression", os.path.join("PEPit", "expression.py")),
               ("Constraint", "PEPit.constraint", os.path.join("PEPit", "constraint.py"))]
HELPER_OWNER = "dict_operations"
HELPER_MODULE = "PEPit.tools.dict_operations"
HELPER_FILE = os.path.join("PEPit", "tools", "dict_operations.py")
HELPERS = ["merge_dict", "prune_dict", "multiply_dicts", "symmetrize_dict"]
OPERATOR_CLASSES = ["Point", "Expression"]
# mirror of Model/PurityPlan.v `expected` (the Coq predicate decides; this only gives the run a readable message)
EXPECTED = ([("Point", m) for m in ("__add__", "__sub__", "__neg__", "__rmul__", "__mul__", "__truediv__", "__pow__")]
            + [("Expression", m) for m in ("__add__", "__radd__", "__sub__", "__rsub__", "__neg__", "__rmul__", "__mul__",
                                           "__truediv__", "__le__", "__lt__", "__ge__", "__gt__", "__eq__")]
            + [("Point", "__init__"), ("Expression", "__init__"), ("Constraint", "__init__")]
            + [(HELPER_OWNER, h) for h in HELPERS])

_BIN = ["add", "sub", "mul", "matmul", "truediv", "floordiv", "mod", "divmod", "pow", "lshift", "rshift", "and", "xor", "or"]
OPERATOR_DUNDERS = set(["__%s__" % b for b in _BIN] + ["__r%s__" % b for b in _BIN]
                       + ["__i%s__" % b for b in _BIN if b != "divmod"]
                       + ["__neg__", "__pos__", "__abs__", "__invert__",
                          "__lt__", "__le__", "__eq__", "__ne__", "__gt__", "__ge__"])

MUTATORS = {"update", "pop", "popitem", "clear", "setdefault", "append", "extend", "insert", "remove", "sort", "reverse",
            "add", "discard", "intersection_update", "difference_update", "symmetric_difference_update",
            "__setitem__", "__delitem__", "__setattr__", "__delattr__", "__ior__", "__iand__", "__ixor__", "__isub__",
            "__iadd__", "__imul__"}
READERS = {"keys", "values", "items", "get", "copy", "__contains__", "__getitem__", "__len__", "__iter__", "index", "count"}
FRESH_BUILTINS = {"dict", "list", "set", "tuple", "frozenset", "sorted"}
ELEMENT_BUILTINS = {"enumerate", "zip", "reversed", "iter", "next", "min", "max", "sum"}
SCALAR_BUILTINS = {"isinstance", "issubclass", "type", "len", "float", "int", "bool", "str", "repr", "abs", "id", "hash",
                   "print", "range", "round", "callable", "super", "any", "all",
                   "Exception", "TypeError", "ValueError", "AssertionError", "NotImplementedError", "KeyError",
                   "IndexError", "AttributeError", "RuntimeError", "ZeroDivisionError", "ArithmeticError"}
HOOKS = {"__getattr__", "__getattribute__", "__setattr__", "__delattr__", "__get__", "__set__", "__delete__",
         "__set_name__", "__init_subclass__", "__class_getitem__", "__new__"}
FORBIDDEN = {"exec", "eval", "setattr", "delattr", "getattr", "vars", "globals", "locals", "__import__", "compile",
             "map", "filter", "memoryview", "bytearray", "open", "input"}


def cstr(s):
    s = "".join(ch if 32 <= ord(ch) < 127 else "?" for ch in str(s))
    return '"' + s.replace('"', '""') + '"'


def join(a, b):
    if a == b:
        return a
    if a == N:
        return b
    if b == N:
        return a
    return A


def hot(v):
    """the value may be, or may contain, an operand-owned object"""
    return v in (A, R, F)


def first_line(node, n=70):
    try:
        return ast.unparse(node).split("\n")[0][:n]
    except Exception:
        return type(node).__name__


# ------------------------------------------------------------------ module context
class Module:
    """one source file: what its module-level names denote"""

    def __init__(self, rel):
        self.rel = rel
        self.items = []          # module-level POther items: (owner text, why)
        self.names = {}          # name -> ("helper", h) | ("class", C) | ("module", dotted) | ("other", None)
        self.classes = {}        # class name -> ClassDef
        self.functions = {}      # module-level function name -> [FunctionDef]
        path = os.path.join(REPO, rel)
        self.tree = ast.parse(open(path).read())
        class_modules = {m: c for c, m, _ in CLASS_FILES}
        for s in self.tree.body:
            if isinstance(s, ast.ImportFrom):
                for al in s.names:
                    local = al.asname or al.name
                    if s.level == 0 and s.module == HELPER_MODULE and al.name in HELPERS:
                        self.bind(local, ("helper", al.name), s)
                    elif s.level == 0 and s.module in class_modules and al.name == class_modules[s.module]:
                        self.bind(local, ("class", al.name), s)
                    else:
                        self.bind(local, ("other", None), s)
            elif isinstance(s, ast.Import):
                for al in s.names:
                    local = al.asname or al.name.split(".")[0]
                    self.bind(local, ("module", al.name if al.asname else al.name.split(".")[0]), s)
            elif isinstance(s, ast.ClassDef):
                self.classes.setdefault(s.name, s)
                mine = [c for c, _, f in CLASS_FILES if f == rel and c == s.name]
                self.bind(s.name, ("class", s.name) if mine else ("other", None), s)
            elif isinstance(s, (ast.FunctionDef, ast.AsyncFunctionDef)):
                self.functions.setdefault(s.name, []).append(s)
                self.bind(s.name, ("helper", s.name) if (rel == HELPER_FILE and s.name in HELPERS) else ("other", None), s)
            else:
                for n in ast.walk(s):
                    if isinstance(n, ast.Name) and isinstance(n.ctx, (ast.Store, ast.Del)):
                        self.bind(n.id, ("other", None), s)
                    if isinstance(n, (ast.FunctionDef, ast.AsyncFunctionDef, ast.ClassDef)):     # `if ..: def merge_dict ..`
                        self.bind(n.name, ("other", None), s)
                    if isinstance(n, (ast.Import, ast.ImportFrom)):
                        for al in n.names:
                            self.bind(al.asname or al.name.split(".")[0], ("other", None), s)
                    # Cls.attr = .. / setattr(..) at module level could replace an analysed method
                    if isinstance(n, ast.Attribute) and isinstance(n.ctx, (ast.Store, ast.Del)):
                        self.items.append((rel, "line %d: module-level attribute store: %s" % (s.lineno, first_line(s))))
                    if isinstance(n, ast.Call) and isinstance(n.func, ast.Name) and n.func.id in ("setattr", "delattr", "exec", "eval"):
                        self.items.append((rel, "line %d: module-level %s(..)" % (s.lineno, n.func.id)))

    def bind(self, name, what, stmt):
        if name in self.names and (self.names[name][0] in ("helper", "class") or what[0] in ("helper", "class")):
            self.items.append((self.rel, "line %d: %s is bound more than once at module level" % (stmt.lineno, name)))
        self.names[name] = what


# ------------------------------------------------------------------ one function
class Fn:
    def __init__(self, owner, node, module, ctx, is_ctor, is_method):
        self.owner, self.node, self.module, self.ctx = owner, node, module, ctx
        self.qual = "%s.%s" % (owner, node.name)
        self.is_ctor = is_ctor
        self.is_method = is_method
        self.items = []          # (constructor, kind or None, text)
        self.callees = set()     # method names called on possible operands / class names constructed
        self.rets = []
        self.env = {}

    # --- items
    def write(self, kind, node, what):
        self.items.append(("PWrite", kind, "line %d: %s: %s" % (node.lineno, what, first_line(node))))

    def glob(self, node):
        self.items.append(("PGlobal", None, "line %d: %s" % (node.lineno, first_line(node))))

    def other(self, node, why):
        self.items.append(("POther", None, "line %d: %s: %s" % (getattr(node, "lineno", self.node.lineno), why, first_line(node))))

    # --- driver
    def run(self):
        fn = self.node
        a = fn.args
        params = [x.arg for x in a.posonlyargs + a.args + a.kwonlyargs]
        if a.vararg:
            params.append(a.vararg.arg)
        if a.kwarg:
            params.append(a.kwarg.arg)
        self.env = {p: A for p in params}
        if self.is_method and not (a.posonlyargs + a.args):
            self.items.append(("POther", None, "line %d: method without a positional `self`" % fn.lineno))
        if self.is_ctor and (a.posonlyargs + a.args):
            self.env[(a.posonlyargs + a.args)[0].arg] = F
        for n in ast.walk(fn):
            if isinstance(n, ast.Name) and isinstance(n.ctx, ast.Store):
                self.env.setdefault(n.id, N)
        for _ in range(12):
            before = dict(self.env)
            self.items, self.rets, self.callees = [], [], set()
            if isinstance(fn, ast.AsyncFunctionDef):
                self.other(fn, "async function")
            if fn.decorator_list:
                self.other(fn.decorator_list[0], "decorated function")
            for d in a.defaults + [k for k in a.kw_defaults if k is not None]:
                self.ev(d)
            self.block(fn.body)
            if self.env == before:
                break
        else:
            self.items.append(("POther", None, "line %d: the alias analysis did not stabilise" % fn.lineno))
        return self

    def returns_fresh(self):
        return all(v in (F, N) for v in self.rets)

    # --- statements
    def block(self, stmts):
        for s in stmts:
            self.stmt(s)

    def stmt(self, s):
        t = type(s)
        if t is ast.Expr:
            self.ev(s.value)
        elif t is ast.Assign:
            v = self.ev(s.value)
            for tg in s.targets:
                self.bind(tg, v, s)
        elif t is ast.AnnAssign:
            if s.value is not None:
                self.bind(s.target, self.ev(s.value), s)
        elif t is ast.AugAssign:
            v = self.ev(s.value)
            tg = s.target
            if isinstance(tg, ast.Name):
                cur = self.env.get(tg.id, G)
                if cur == A:
                    self.write("WAugmented", s, "augmented assignment on a name that may be an operand-owned object")
                elif cur == G:
                    self.other(s, "augmented assignment on a global name")
                elif cur != F:
                    self.env[tg.id] = join(cur, N if v == N else R)
            else:
                self.bind(tg, v, s)
        elif t is ast.Delete:
            for tg in s.targets:
                if isinstance(tg, ast.Name):
                    continue
                self.store(tg, s, "WDelete")
        elif t is ast.For:
            it = self.ev(s.iter)
            self.bind(s.target, N if it == N else A, s)
            self.block(s.body)
            self.block(s.orelse)
        elif t is ast.While or t is ast.If:
            self.ev(s.test)
            self.block(s.body)
            self.block(s.orelse)
        elif t is ast.With:
            for it in s.items:
                v = self.ev(it.context_expr)
                if it.optional_vars is not None:
                    self.bind(it.optional_vars, N if v == N else A, s)
            self.block(s.body)
        elif t is ast.Try or t.__name__ == "TryStar":
            self.block(s.body)
            for h in s.handlers:
                if h.type is not None:
                    self.ev(h.type)
                if h.name:
                    self.env[h.name] = join(self.env.get(h.name, N), N)
                self.block(h.body)
            self.block(s.orelse)
            self.block(s.finalbody)
        elif t is ast.Return:
            self.rets.append(self.ev(s.value) if s.value is not None else N)
        elif t is ast.Assert:
            self.ev(s.test)
            if s.msg is not None:
                self.ev(s.msg)
        elif t is ast.Raise:
            if s.exc is not None:
                self.ev(s.exc)
            if s.cause is not None:
                self.ev(s.cause)
        elif t in (ast.Pass, ast.Break, ast.Continue):
            pass
        else:   # FunctionDef, AsyncFunctionDef, ClassDef, Global, Nonlocal, Import, ImportFrom, AsyncFor, AsyncWith, Match, ...
            self.other(s, "statement outside the grammar (%s)" % t.__name__)

    def bind(self, tg, v, s):
        """assignment of a value v to the target tg"""
        if isinstance(tg, ast.Name):
            self.env[tg.id] = join(self.env.get(tg.id, N), v)
        elif isinstance(tg, (ast.Tuple, ast.List)):
            for e in tg.elts:
                self.bind(e, N if v == N else A, s)
        elif isinstance(tg, ast.Starred):
            self.bind(tg.value, N if v == N else A, s)
        elif isinstance(tg, (ast.Subscript, ast.Attribute)):
            self.store(tg, s, "WSubscript" if isinstance(tg, ast.Subscript) else "WAttribute")
        else:
            self.other(s, "assignment target outside the grammar")

    def store(self, tg, s, kind):
        """a write through tg (x[k] / x.a): decided by what x may be"""
        if not isinstance(tg, (ast.Subscript, ast.Attribute)):
            self.other(s, "store target outside the grammar")
            return
        base = self.ev(tg.value)
        if isinstance(tg, ast.Subscript):
            self.ev(tg.slice)
        if base in (A, R):
            self.write(kind, s, {"WSubscript": "item store", "WAttribute": "attribute store", "WDelete": "del"}[kind]
                       + " through a possible operand-owned object `%s`" % first_line(tg.value, 40))
        elif base == F:
            pass
        elif base == G:
            if isinstance(tg, ast.Attribute) and isinstance(tg.value, ast.Name) and kind != "WDelete":
                self.glob(s)
            else:
                self.other(s, "write through a global object")
        else:
            self.other(s, "write through a value the analysis took for immutable")

    # --- expressions
    def ev(self, e):
        t = type(e)
        if t is ast.Constant:
            return N
        if t is ast.Name:
            return self.env.get(e.id, G)
        if t is ast.Attribute:
            v = self.ev(e.value)
            return v if v in (N, G) else A
        if t is ast.Subscript:
            v = self.ev(e.value)
            self.ev(e.slice)
            return v if v in (N, G) else A
        if t is ast.Slice:
            for x in (e.lower, e.upper, e.step):
                if x is not None:
                    self.ev(x)
            return N
        if t is ast.BinOp:
            l, r = self.ev(e.left), self.ev(e.right)
            return N if (l == N and r == N) else R
        if t is ast.UnaryOp:
            v = self.ev(e.operand)
            return N if (v == N or isinstance(e.op, ast.Not)) else R
        if t is ast.BoolOp:
            out = N
            for x in e.values:
                out = join(out, self.ev(x))
            return out
        if t is ast.Compare:
            vs = [self.ev(e.left)] + [self.ev(c) for c in e.comparators]
            if all(isinstance(o, (ast.Is, ast.IsNot, ast.In, ast.NotIn)) for o in e.ops) or all(v == N for v in vs):
                return N
            return R
        if t is ast.IfExp:
            self.ev(e.test)
            return join(self.ev(e.body), self.ev(e.orelse))
        if t is ast.Dict:
            for k in e.keys:
                if k is not None:
                    self.ev(k)
            for v in e.values:
                self.ev(v)
            return F
        if t in (ast.List, ast.Set, ast.Tuple):
            for x in e.elts:
                self.ev(x.value if isinstance(x, ast.Starred) else x)
            return F
        if t in (ast.ListComp, ast.SetComp, ast.GeneratorExp, ast.DictComp):
            for g in e.generators:
                if g.is_async:
                    self.other(e, "async comprehension")
                it = self.ev(g.iter)
                self.bind(g.target, N if it == N else A, e)
                for c in g.ifs:
                    self.ev(c)
            if t is ast.DictComp:
                self.ev(e.key)
                self.ev(e.value)
            else:
                self.ev(e.elt)
            return F
        if t is ast.JoinedStr:
            for x in e.values:
                self.ev(x)
            return N
        if t is ast.FormattedValue:
            self.ev(e.value)
            if e.format_spec is not None:
                self.ev(e.format_spec)
            return N
        if t is ast.NamedExpr:
            v = self.ev(e.value)
            self.bind(e.target, v, e)
            return v
        if t is ast.Call:
            return self.call(e)
        self.other(e, "expression outside the grammar (%s)" % t.__name__)   # Lambda, Yield, YieldFrom, Await, Starred ...
        return A

    def call(self, e):
        f = e.func
        vals, star_hot = [], False
        for a in e.args:
            if isinstance(a, ast.Starred):
                v = self.ev(a.value)
                star_hot = star_hot or v not in (N, G)
            else:
                v = self.ev(a)
            vals.append(v)
        for k in e.keywords:
            v = self.ev(k.value)
            if k.arg is None:
                star_hot = star_hot or v not in (N, G)
            vals.append(v)
        any_hot = any(hot(v) for v in vals)
        if star_hot:
            self.other(e, "star-arguments carrying a possible operand-owned object")

        if isinstance(f, ast.Name) and f.id not in self.env:
            name = f.id
            what = self.module.names.get(name)
            if what is not None and what[0] == "helper":
                self.callees.add(("helper", what[1]))
                return F if self.ctx["helper_fresh"].get(what[1], False) else A
            if what is not None and what[0] == "class":
                self.callees.add(("ctor", what[1]))
                return F
            if what is None and name in FORBIDDEN:
                self.other(e, "call of %s" % name)
                return A
            if what is None and name in FRESH_BUILTINS:
                return F
            if what is None and name in ELEMENT_BUILTINS:
                return A if any_hot else N
            if what is None and name in SCALAR_BUILTINS:
                return N
            return self.unknown(e, any_hot)

        if isinstance(f, ast.Attribute):
            attr, recv = f.attr, f.value
            # copy.copy(x) / copy.deepcopy(x)
            if (isinstance(recv, ast.Name) and recv.id not in self.env and self.module.names.get(recv.id) == ("module", "copy")
                    and attr in ("copy", "deepcopy") and len(e.args) == 1 and not e.keywords and not star_hot):
                return F
            # method of a string literal: pure, returns a str
            if isinstance(recv, ast.Constant) and isinstance(recv.value, str):
                return N
            rv = self.ev(recv)
            if hot(rv):
                if attr in MUTATORS:
                    if rv != F:
                        self.write("WMutatingCall", e, "mutating method .%s on a possible operand-owned object `%s`"
                                   % (attr, first_line(recv, 40)))
                    return A
                if any(attr in c for c in self.ctx["class_methods"].values()):
                    self.callees.add(("method", attr))
                    return A
                if attr in READERS:
                    return F if (attr == "copy" and not e.args and not e.keywords) else A
                self.other(e, "unknown method .%s on a possible operand-owned object" % attr)
                return A
            if rv == G:
                cls = self.module.names.get(recv.id) if isinstance(recv, ast.Name) else None
                if cls is not None and cls[0] == "class" and attr in self.ctx["class_methods"].get(cls[1], ()):
                    self.callees.add(("method", attr))          # Point.__add__(self, other)
                    if attr in MUTATORS and any_hot:
                        self.write("WMutatingCall", e, "mutating method %s.%s" % (cls[1], attr))
                    return A
                if attr in MUTATORS:
                    if isinstance(recv, ast.Name):              # dict.update(d, ..) / object.__setattr__(o, ..)
                        if any_hot:
                            self.write("WMutatingCall", e, "mutating method %s.%s applied to a possible operand-owned object"
                                       % (recv.id, attr))
                        return A
                    self.glob(e)                                # Point.list_of_leaf_points.append(self)
                    return A
            return self.unknown(e, any_hot)
        self.ev(f)
        return self.unknown(e, any_hot)

    def unknown(self, e, any_hot):
        if any_hot:
            self.write("WEscape", e, "possible operand-owned object handed to `%s`, which is not analysed" % first_line(e.func, 40))
        return A


# ------------------------------------------------------------------ the whole analysis
def analyse():
    """-> (analysed [(owner, name)], items [(ctor, kind, qualname, text)], helper_fresh {name: bool})"""
    items = []
    modules = {}

    def module(rel):
        if rel not in modules:
            try:
                modules[rel] = Module(rel)
                for owner, why in modules[rel].items:
                    items.append(("POther", None, owner, why))
            except Exception as ex:     # missing file / syntax error
                modules[rel] = None
                items.append(("POther", None, rel, "cannot read the module: %r" % (ex,)))
        return modules[rel]

    ctx = {"helper_fresh": {h: True for h in HELPERS}, "class_methods": {}}
    class_nodes = {}
    for cname, _, rel in CLASS_FILES:
        m = module(rel)
        node = m.classes.get(cname) if m else None
        if node is None:
            items.append(("POther", None, cname, "class %s not found in %s" % (cname, rel)))
            ctx["class_methods"][cname] = {}
            continue
        class_nodes[cname] = (m, node)
        if sum(1 for s in m.tree.body if isinstance(s, ast.ClassDef) and s.name == cname) > 1:
            items.append(("POther", None, cname, "class %s defined more than once" % cname))
        if node.decorator_list:
            items.append(("POther", None, cname, "line %d: decorated class" % node.lineno))
        for b in node.bases:
            if not (isinstance(b, ast.Name) and b.id == "object"):
                items.append(("POther", None, cname, "line %d: base class %s (inherited operators are not analysed)"
                              % (node.lineno, first_line(b))))
        if node.keywords:
            items.append(("POther", None, cname, "line %d: class keywords (metaclass)" % node.lineno))
        methods = {}
        for s in node.body:
            if isinstance(s, (ast.FunctionDef, ast.AsyncFunctionDef)):
                methods.setdefault(s.name, []).append(s)
                if s.name in HOOKS:
                    items.append(("POther", None, "%s.%s" % (cname, s.name),
                                  "line %d: attribute-access hook defined in the class" % s.lineno))
                if s.decorator_list:        # @property & co. turn an attribute read into a call
                    items.append(("POther", None, "%s.%s" % (cname, s.name),
                                  "line %d: decorated method: @%s" % (s.lineno, first_line(s.decorator_list[0]))))
            elif not (isinstance(s, (ast.Assign, ast.AnnAssign, ast.Pass))
                      or (isinstance(s, ast.Expr) and isinstance(s.value, ast.Constant))):
                items.append(("POther", None, cname, "line %d: class-body statement outside the grammar: %s"
                              % (s.lineno, first_line(s))))
        for s in node.body:
            # `__iadd__ = __add__` is fine (both analysed); `__add__ = something_else` is not
            if isinstance(s, (ast.Assign, ast.AnnAssign)):
                tgs = s.targets if isinstance(s, ast.Assign) else [s.target]
                for tg in tgs:
                    for n in ast.walk(tg):
                        if isinstance(n, ast.Name) and (n.id in OPERATOR_DUNDERS or n.id == "__init__"):
                            v = s.value
                            if not (isinstance(v, ast.Name) and v.id in methods and isinstance(tg, ast.Name)):
                                items.append(("POther", None, "%s.%s" % (cname, n.id),
                                              "line %d: operator bound by assignment: %s" % (s.lineno, first_line(s))))
                            else:
                                methods.setdefault(n.id, []).extend(methods[v.id])
        ctx["class_methods"][cname] = methods

    hm = module(HELPER_FILE)
    helper_nodes = {}
    for h in HELPERS:
        nodes = hm.functions.get(h, []) if hm else []
        if not nodes:
            items.append(("POther", None, "%s.%s" % (HELPER_OWNER, h), "helper %s not found in %s" % (h, HELPER_FILE)))
        helper_nodes[h] = nodes

    # helpers: greatest fixpoint of "every return is fresh"
    helper_runs = {}
    for _ in range(len(HELPERS) + 2):
        changed = False
        for h in HELPERS:
            runs = [Fn(HELPER_OWNER, nd, hm, ctx, False, False).run() for nd in helper_nodes[h]]
            helper_runs[h] = runs
            fresh = bool(runs) and all(r.returns_fresh() for r in runs)
            if fresh != ctx["helper_fresh"][h]:
                ctx["helper_fresh"][h] = fresh
                changed = True
        if not changed:
            break

    analysed, done = [], {}
    work = []
    for cname in OPERATOR_CLASSES:
        for mname in ctx["class_methods"].get(cname, {}):
            if mname in OPERATOR_DUNDERS:
                work.append((cname, mname))
    for cname, _, _ in CLASS_FILES:
        if "__init__" in ctx["class_methods"].get(cname, {}):
            work.append((cname, "__init__"))
    while work:
        cname, mname = work.pop(0)
        if (cname, mname) in done:
            continue
        m, _ = class_nodes[cname]
        runs = [Fn(cname, nd, m, ctx, mname == "__init__", True).run() for nd in ctx["class_methods"][cname][mname]]
        done[(cname, mname)] = runs
        for r in runs:
            for kind, name in r.callees:
                if kind == "method":
                    for c2, ms in ctx["class_methods"].items():
                        if name in ms and (c2, name) not in done:
                            work.append((c2, name))
                elif kind == "ctor":
                    if "__init__" in ctx["class_methods"].get(name, {}) and (name, "__init__") not in done:
                        work.append((name, "__init__"))
    for h in HELPERS:
        if helper_runs.get(h):
            analysed.append((HELPER_OWNER, h))
            for r in helper_runs[h]:
                for c, k, text in r.items:
                    items.append((c, k, r.qual, text))
    for cname, _, _ in CLASS_FILES:
        keys = sorted((k for k in done if k[0] == cname), key=lambda k: min(r.node.lineno for r in done[k]))
        for k in keys:
            analysed.append(k)
            for r in done[k]:
                for c, kd, text in r.items:
                    items.append((c, kd, r.qual, text))
    return analysed, items, dict(ctx["helper_fresh"])


def translate():
    analysed, items, fresh = analyse()
    status = {}
    for owner, name in analysed:
        status["analysed:%s.%s" % (owner, name)] = True
    for owner, name in EXPECTED:
        if (owner, name) not in analysed:
            status["expected:%s.%s" % (owner, name)] = "%s.%s is expected by Model/PurityPlan.v and was not found" % (owner, name)
    for i, (c, kind, qual, text) in enumerate(items):
        status["item#%d" % i] = True if c == "PGlobal" else "%s%s in %s: %s" % (c, " " + kind if kind else "", qual, text)
    for h in HELPERS:
        status["returns-fresh:%s" % h] = True if fresh.get(h) and (HELPER_OWNER, h) in analysed else \
            "%s may return one of its parameters (or was not found)" % h

    def term(c, kind, qual, text):
        if c == "PWrite":
            return "PWrite %s %s %s" % (kind, cstr(qual), cstr(text))
        return "%s %s %s" % (c, cstr(qual), cstr(text))
    sep = ";\n   "
    L = ["(** GENERATED by translator/tr_purity.py -- writes through operand-owned objects in the operator methods of",
         "    Point / Expression, the three constructors and the dictionary helpers (C06). *)",
         "From Coq Require Import List String.",
         "From PV Require Import Model.PurityPlan.",
         "Import ListNotations.",
         "Local Open Scope string_scope.",
         "",
         "(** (owner, function) of every function the analysis went through *)",
         "Definition analysed : list (string * string) :=",
         "  [" + sep.join("(%s, %s)" % (cstr(o), cstr(n)) for o, n in analysed) + "].",
         "",
         "Definition purity_items : list pitem :=",
         "  [" + sep.join(term(*it) for it in items) + "].",
         "",
         "(** helper -> every `return` hands back a fresh object (never a parameter, nor something reached from one) *)",
         "Definition helper_returns_fresh : list (string * bool) :=",
         "  [" + "; ".join("(%s, %s)" % (cstr(h), "true" if fresh.get(h) else "false") for h in HELPERS
                          if (HELPER_OWNER, h) in analysed) + "]."]
    return OUTPUT, "\n".join(L) + "\n", status


if __name__ == "__main__":
    fn_, text_, st_ = translate()
    print(text_)
    for k_, v_ in st_.items():
        if v_ is not True:
            print("ERR", k_, v_)
