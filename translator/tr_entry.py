"""tr_entry — the public entry point PEP.solve (pep.py) -> coq/Gen/Entry.v (C14, C16).

PEP.solve is the code between the user's keyword arguments and PEP._solve_with_wrapper (whose body is read by
tr_solveplan / tr_postsolve): back-end selection with its two fall-backs, and the forwarding of every option.
Grammar (fail-closed; anything else becomes `EOther "<why>"`, which the obligation `entry_ok` rejects):

  signature  (self, <name>=<constant>..., **kwargs)            every default a str / int / float / None constant
  body ::=   docstring?
             <wn> = wrapper.lower()                                                               -> ELower
             <found> = importlib.util.find_spec(<wn>)
             if <found> is None: [if verbose: print(..)]  <wn> = "cvxpy"                          -> EFallbackNotInstalled
             <w> = WRAPPERS[<wn>](verbose=verbose)                                                -> EInstantiate
             if not <w>.check_license(): [if verbose: print(..)]  <wn> = "cvxpy"
                                          <w> = WRAPPERS[<wn>](verbose=verbose)                   -> EFallbackNoLicense
             self.wrapper_name = <wn>                                                             -> EStore "wrapper_name"
             self.wrapper = <w>                                                                   -> EStore "wrapper"
             out = self._solve_with_wrapper(<args>) ; return out   |   return self._solve_with_wrapper(<args>)   -> ECall
  <args>     positional or keyword, each a bare Name; positional ones are matched with the parameter list of
             _solve_with_wrapper; `**kwargs`.  Emitted as `forwarded : list (callee parameter, caller name)`.
Also emitted: the defaults of both signatures (`solve_defaults`, `inner_defaults`).
Local names (<wn>, <found>, <w>) are bound from the source; <w> may re-use the parameter name `wrapper`.
"""
import ast
import os

REPO = os.environ.get("PEPIT_REPO", "/repo")
OUTPUT = "Entry.v"


def cstr(s):
    return '"' + str(s).replace('"', '""') + '"'


def is_name(n, name):
    return isinstance(n, ast.Name) and n.id == name


def print_only_verbose(s):
    return (isinstance(s, ast.If) and is_name(s.test, "verbose") and not s.orelse
            and all(isinstance(x, ast.Expr) and isinstance(x.value, ast.Call) and is_name(x.value.func, "print")
                    for x in s.body))


def default_term(n):
    if isinstance(n, ast.Constant):
        v = n.value
        if v is None:
            return "DNone"
        if isinstance(v, bool):
            return "(DOther %s)" % cstr("bool %r" % v)
        if isinstance(v, str):
            return "(DStr %s)" % cstr(v)
        if isinstance(v, (int, float)):
            return "(DNum %s)" % cstr(repr(v))
    return "(DOther %s)" % cstr(ast.unparse(n)[:60])


def defaults_of(fn):
    """[(name, term)] for the parameters that have a default (positional-or-keyword only)"""
    args = fn.args.args
    ds = fn.args.defaults
    out = []
    for a, d in zip(args[len(args) - len(ds):], ds):
        out.append((a.arg, default_term(d)))
    return out


def is_instantiate(v, wn):
    return (isinstance(v, ast.Call) and isinstance(v.func, ast.Subscript) and is_name(v.func.value, "WRAPPERS")
            and is_name(v.func.slice, wn) and not v.args and len(v.keywords) == 1
            and v.keywords[0].arg == "verbose" and is_name(v.keywords[0].value, "verbose"))


def translate():
    status = {}
    tree = ast.parse(open(os.path.join(REPO, "PEPit", "pep.py")).read())
    solve = inner = None
    for node in ast.walk(tree):
        if isinstance(node, ast.ClassDef) and node.name == "PEP":
            for f in node.body:
                if isinstance(f, ast.FunctionDef) and f.name == "solve":
                    solve = f
                if isinstance(f, ast.FunctionDef) and f.name == "_solve_with_wrapper":
                    inner = f
    plan, forwarded = [], []
    sdef = idef = []
    if solve is None or inner is None:
        plan.append(("EOther", "PEP.solve / PEP._solve_with_wrapper not found"))
    else:
        sdef, idef = defaults_of(solve), defaults_of(inner)
        if solve.args.vararg is not None or solve.args.kwonlyargs or solve.args.kwarg is None \
                or solve.args.kwarg.arg != "kwargs":
            plan.append(("EOther", "signature of solve: expected (self, <options>, **kwargs)"))
        params = [a.arg for a in solve.args.args]
        inner_params = [a.arg for a in inner.args.args][1:]          # without self
        body = list(solve.body)
        if body and isinstance(body[0], ast.Expr) and isinstance(body[0].value, ast.Constant) \
                and isinstance(body[0].value.value, str):
            body = body[1:]
        wn = found = w = None
        k = 0
        while k < len(body):
            s = body[k]
            k += 1
            if isinstance(s, ast.Assign) and len(s.targets) == 1:
                t, v = s.targets[0], s.value
                # <wn> = wrapper.lower()
                if (isinstance(t, ast.Name) and wn is None and isinstance(v, ast.Call) and not v.args and not v.keywords
                        and isinstance(v.func, ast.Attribute) and v.func.attr == "lower" and is_name(v.func.value, "wrapper")):
                    wn = t.id
                    plan.append(("ELower", None))
                    continue
                # <found> = importlib.util.find_spec(<wn>)  (the `if` must follow)
                if (isinstance(t, ast.Name) and wn and found is None and isinstance(v, ast.Call) and len(v.args) == 1
                        and not v.keywords and is_name(v.args[0], wn) and ast.unparse(v.func) == "importlib.util.find_spec"
                        and k < len(body) and isinstance(body[k], ast.If)):
                    found = t.id
                    i = body[k]
                    ok = (isinstance(i.test, ast.Compare) and is_name(i.test.left, found) and len(i.test.ops) == 1
                          and isinstance(i.test.ops[0], ast.Is) and isinstance(i.test.comparators[0], ast.Constant)
                          and i.test.comparators[0].value is None and not i.orelse)
                    inner_b = [x for x in i.body if not print_only_verbose(x)]
                    ok = ok and len(inner_b) == 1 and isinstance(inner_b[0], ast.Assign) and len(inner_b[0].targets) == 1 \
                        and is_name(inner_b[0].targets[0], wn) and isinstance(inner_b[0].value, ast.Constant) \
                        and inner_b[0].value.value == "cvxpy"
                    if ok:
                        k += 1
                        plan.append(("EFallbackNotInstalled", None))
                        continue
                    plan.append(("EOther", "line %d: unexpected not-installed fall-back" % i.lineno))
                    k += 1
                    continue
                # <w> = WRAPPERS[<wn>](verbose=verbose)
                if isinstance(t, ast.Name) and wn and w is None and is_instantiate(v, wn):
                    w = t.id
                    plan.append(("EInstantiate", None))
                    continue
                # self.wrapper_name = <wn> / self.wrapper = <w>
                if isinstance(t, ast.Attribute) and is_name(t.value, "self") and t.attr in ("wrapper_name", "wrapper"):
                    src = wn if t.attr == "wrapper_name" else w
                    if src and is_name(v, src):
                        plan.append(("EStore", t.attr))
                        continue
                # out = self._solve_with_wrapper(...) ; return out
                if (isinstance(t, ast.Name) and isinstance(v, ast.Call) and ast.unparse(v.func) == "self._solve_with_wrapper"
                        and k < len(body) and isinstance(body[k], ast.Return) and is_name(body[k].value, t.id)
                        and k + 1 == len(body)):
                    k += 1
                    forwarded = read_call(v, inner_params, params + ([w] if w else []), plan)
                    plan.append(("ECall", None))
                    continue
            elif isinstance(s, ast.If) and w and not s.orelse:
                t = s.test
                if (isinstance(t, ast.UnaryOp) and isinstance(t.op, ast.Not) and isinstance(t.operand, ast.Call)
                        and not t.operand.args and not t.operand.keywords
                        and ast.unparse(t.operand.func) == "%s.check_license" % w):
                    inner_b = [x for x in s.body if not print_only_verbose(x)]
                    ok = (len(inner_b) == 2 and all(isinstance(x, ast.Assign) and len(x.targets) == 1 for x in inner_b)
                          and is_name(inner_b[0].targets[0], wn) and isinstance(inner_b[0].value, ast.Constant)
                          and inner_b[0].value.value == "cvxpy"
                          and is_name(inner_b[1].targets[0], w) and is_instantiate(inner_b[1].value, wn))
                    if ok:
                        plan.append(("EFallbackNoLicense", None))
                        continue
            elif isinstance(s, ast.Return) and isinstance(s.value, ast.Call) \
                    and ast.unparse(s.value.func) == "self._solve_with_wrapper" and k == len(body):
                forwarded = read_call(s.value, inner_params, params + ([w] if w else []), plan)
                plan.append(("ECall", None))
                continue
            plan.append(("EOther", "line %d: unexpected statement: %s" % (s.lineno, ast.unparse(s).split("\n")[0][:80])))
        # the local wrapper object is what must be forwarded as `wrapper`
        forwarded = [(a, "<wrapper object>" if (b == w and w) else b) for a, b in forwarded]
    for i, (c, why) in enumerate(plan):
        status["plan#%d" % i] = True if c != "EOther" else why

    def term(c, why):
        if c == "EStore":
            return "(EStore %s)" % cstr(why)
        return c if why is None else "(%s %s)" % (c, cstr(why))
    L = ["(** GENERATED by translator/tr_entry.py -- PEP.solve: back-end selection and forwarding of the options. *)",
         "From Coq Require Import List String.",
         "From PV Require Import Model.EntryPlan.",
         "Import ListNotations.",
         "Local Open Scope string_scope.",
         "",
         "Definition entry_plan : list estep := [" + "; ".join(term(c, w_) for c, w_ in plan) + "].",
         "",
         "(** (parameter of _solve_with_wrapper, name handed to it by solve) *)",
         "Definition forwarded : list (string * string) := [" +
         "; ".join("(%s, %s)" % (cstr(a), cstr(b)) for a, b in forwarded) + "].",
         "",
         "Definition solve_defaults : list (string * dflt) := [" +
         "; ".join("(%s, %s)" % (cstr(a), b) for a, b in sdef) + "].",
         "Definition inner_defaults : list (string * dflt) := [" +
         "; ".join("(%s, %s)" % (cstr(a), b) for a, b in idef) + "]."]
    return OUTPUT, "\n".join(L) + "\n", status


def read_call(call, inner_params, allowed, plan):
    out = []
    for i, a in enumerate(call.args):
        if isinstance(a, ast.Starred) or not isinstance(a, ast.Name) or a.id not in allowed or i >= len(inner_params):
            plan.append(("EOther", "line %d: argument %d of _solve_with_wrapper is not a plain parameter name" % (call.lineno, i)))
            continue
        out.append((inner_params[i], a.id))
    for kw in call.keywords:
        if kw.arg is None:
            if is_name(kw.value, "kwargs"):
                out.append(("**", "kwargs"))
            else:
                plan.append(("EOther", "line %d: ** of something else than kwargs" % call.lineno))
        elif isinstance(kw.value, ast.Name) and kw.value.id in allowed:
            out.append((kw.arg, kw.value.id))
        else:
            plan.append(("EOther", "line %d: keyword %s of _solve_with_wrapper is not a plain parameter name" % (call.lineno, kw.arg)))
    return out


if __name__ == "__main__":
    fn_, text, st = translate()
    print(text)
    for k_, v_ in st.items():
        if v_ is not True:
            print("ERR", k_, v_)
