"""tr_globals — process-global mutable state of PEPit -> coq/Gen/Globals.v  (property C12).

Reads, with Python's `ast`, every module under $PEPIT_REPO/PEPit except examples/ and emits

  class_attrs        (class, attribute, initial value)   every class-body `Name = <value>`
  mutations          (class, attribute, op, where)       every `Class.attr = / += / -= / [k] = / .append(..) ...`
                                                         anywhere, Class being a class defined in PEPit
  module_objects     (module, name, class)               module-level `name = Point(...)` / `Expression(...)` ...
  module_containers  (module, name, kind)                module-level dict / list literals (WRAPPERS)
  container_writes   (module, name, op, where)           writes into such a container from PEPit's own code
  module_object_writes [where: what]                     `null_point.<attr> = ..`, `null_point.decomposition_dict[k] = ..`,
                                                         `null_point.set_name(..)` ... inside PEPit's functions
  opaque_writes      [where: what]                       writes to class state that cannot be attributed statically
                                                         (cls.x = .., type(self).x = .., self.__class__.x, setattr, global,
                                                         mutable default arguments, registries mutated through self,
                                                         classes defining __iadd__-style in-place operators)
  reset_fields       (class, attribute, value)           the assignments of PEP._reset_classes, in order
  init_resets_first  bool                                PEP.__init__'s first statement is `self._reset_classes()`
  reads_before_reset [..]                                class-state reads that precede it (always [] when the flag is true)

Grammar (fail-closed: anything else is an error item and nothing is emitted for it):
  class body   : docstring | def | `Name = Constant | list() | dict() | set() | [] | {}`
  module body  : docstring | import | from-import | class | def | `__all__ = [...]` |
                 `Name = Class(<args>)` (Class defined in PEPit) | `Name = {..} | [..]`
  _reset_classes body : docstring | `Class.attr = Constant | list() | dict() | set() | [] | {}`
"""
import ast
import glob
import os

REPO = os.environ.get("PEPIT_REPO", "/repo")
OUTPUT = "Globals.v"

INPLACE_DUNDERS = {"__iadd__", "__isub__", "__imul__", "__itruediv__", "__ifloordiv__", "__imatmul__", "__ipow__",
                   "__iand__", "__ior__", "__ixor__"}
MUTATING_METHODS = {"append", "extend", "insert", "pop", "remove", "clear", "update", "setdefault", "add",
                    "discard", "sort", "reverse", "popitem", "__setitem__", "__delitem__", "__iadd__"}


def cstr(s):
    return '"' + str(s).replace('"', '""') + '"'


def sources():
    root = os.path.join(REPO, "PEPit")
    out = []
    for p in sorted(glob.glob(os.path.join(root, "**", "*.py"), recursive=True)):
        rel = os.path.relpath(p, root)
        if rel.split(os.sep)[0] == "examples":
            continue
        out.append((rel, p))
    return out


def init_value(v):
    """value of a class-level / reset assignment -> Coq term of type ginit, or None when outside the grammar"""
    if isinstance(v, ast.Constant):
        if isinstance(v.value, bool):
            return "IConst %s" % cstr(repr(v.value))
        if isinstance(v.value, int):
            return "IInt %s" % (("(%d)%%Z" % v.value) if v.value < 0 else ("%d%%Z" % v.value))
        return "IConst %s" % cstr(repr(v.value))
    if isinstance(v, ast.UnaryOp) and isinstance(v.op, ast.USub) and isinstance(v.operand, ast.Constant) \
            and isinstance(v.operand.value, int) and not isinstance(v.operand.value, bool):
        return "IInt (%d)%%Z" % (-v.operand.value)
    if isinstance(v, ast.Call) and isinstance(v.func, ast.Name) and not v.args and not v.keywords:
        if v.func.id == "list":
            return "IEmptyList"
        if v.func.id == "dict":
            return "IEmptyDict"
        if v.func.id == "set":
            return "IEmptySet"
    if isinstance(v, ast.List) and not v.elts:
        return "IEmptyList"
    if isinstance(v, ast.Dict) and not v.keys:
        return "IEmptyDict"
    return None


def is_doc(stmt):
    return isinstance(stmt, ast.Expr) and isinstance(stmt.value, ast.Constant) and isinstance(stmt.value.value, str)


def pure_default(d):
    if isinstance(d, ast.Constant):
        return True
    if isinstance(d, ast.UnaryOp) and isinstance(d.operand, ast.Constant):
        return True
    if isinstance(d, ast.Attribute) and isinstance(d.value, ast.Name) and d.value.id == "np" and d.attr == "inf":
        return True
    return False


class Scan(ast.NodeVisitor):
    """one module: mutations of class state, opaque writes"""

    def __init__(self, rel, classes, containers, class_registries, module_objects=()):
        self.module_objects = set(module_objects)
        self.object_writes = []
        self.rel = rel
        self.classes = classes
        self.containers = containers
        self.class_registries = class_registries   # attr names that are class-level registries of some class
        self.mutations = []
        self.container_writes = []
        self.opaque = []
        self.fn = ["<module>"]
        self.cls = [None]

    def where(self, node):
        return "%s:%d(%s)" % (self.rel, getattr(node, "lineno", 0), self.fn[-1])

    # -- helpers
    def class_attr(self, n):
        """n is `Class.attr` -> (Class, attr)"""
        if isinstance(n, ast.Attribute) and isinstance(n.value, ast.Name) and n.value.id in self.classes:
            return n.value.id, n.attr
        return None

    def indirect_class(self, n):
        """`cls.x`, `type(self).x`, `self.__class__.x`, `X.__dict__`"""
        if not isinstance(n, ast.Attribute):
            return False
        v = n.value
        if isinstance(v, ast.Name) and v.id == "cls":
            return True
        if isinstance(v, ast.Call) and isinstance(v.func, ast.Name) and v.func.id == "type":
            return True
        if isinstance(v, ast.Attribute) and v.attr in ("__class__", "__dict__"):
            return True
        return False

    def target(self, t, op, node):
        if isinstance(t, (ast.Tuple, ast.List)):
            for e in t.elts:
                self.target(e, op, node)
            return
        if isinstance(t, ast.Starred):
            return self.target(t.value, op, node)
        base, sub = t, False
        while isinstance(base, ast.Subscript):
            base, sub = base.value, True
        ca = self.class_attr(base)
        root = base
        while isinstance(root, (ast.Attribute, ast.Subscript)):
            root = root.value
        if isinstance(root, ast.Name) and root.id in self.module_objects and root is not base and self.fn[-1] != "<module>":
            self.object_writes.append("%s: %s %s" % (self.where(node), ast.unparse(base), op))
        if ca:
            self.mutations.append((ca[0], ca[1], ("[]" + op) if sub else op, self.where(node)))
        elif self.indirect_class(base):
            self.opaque.append("%s: write through %s" % (self.where(node), ast.unparse(base)))
        elif isinstance(base, ast.Name) and base.id in self.containers and sub:
            self.container_writes.append((self.containers[base.id], base.id, "[]" + op, self.where(node)))
        elif sub and isinstance(base, ast.Attribute) and isinstance(base.value, ast.Name) and base.value.id == "self" \
                and base.attr in self.class_registries and self.owner_has(base.attr):
            self.opaque.append("%s: class-level registry %s written through self" % (self.where(node), base.attr))

    def owner_has(self, attr):
        """is `attr` a class-level registry of the enclosing class or one of its (PEPit) ancestors?"""
        c = self.cls[-1]
        seen = set()
        while c and c in self.classes and c not in seen:
            seen.add(c)
            info = self.classes[c]
            if attr in info["registries"] and attr not in info["instance_attrs"]:
                return True
            if attr in info["instance_attrs"]:
                return False
            c = info["bases"][0] if info["bases"] else None
        return False

    # -- visitors
    def visit_ClassDef(self, n):
        self.cls.append(n.name)
        self.generic_visit(n)
        self.cls.pop()

    def visit_FunctionDef(self, n):
        for d in list(n.args.defaults) + [x for x in n.args.kw_defaults if x is not None]:
            if not pure_default(d):
                self.opaque.append("%s:%d(%s): mutable / computed default argument %s" %
                                   (self.rel, n.lineno, n.name, ast.unparse(d)))
        if n.name in INPLACE_DUNDERS and self.cls[-1]:
            self.opaque.append("%s:%d: class %s defines %s (augmented assignment would mutate shared objects in place)"
                               % (self.rel, n.lineno, self.cls[-1], n.name))
        self.fn.append((self.cls[-1] + "." if self.cls[-1] else "") + n.name)
        self.generic_visit(n)
        self.fn.pop()

    visit_AsyncFunctionDef = visit_FunctionDef

    def visit_Assign(self, n):
        for t in n.targets:
            self.target(t, "=", n)
        self.generic_visit(n)

    def visit_AnnAssign(self, n):
        self.target(n.target, "=", n)
        self.generic_visit(n)

    def visit_AugAssign(self, n):
        op = {ast.Add: "+=", ast.Sub: "-="}.get(type(n.op), "aug=")
        self.target(n.target, op, n)
        self.generic_visit(n)

    def visit_Delete(self, n):
        for t in n.targets:
            self.target(t, "del", n)
        self.generic_visit(n)

    def visit_NamedExpr(self, n):
        self.target(n.target, "=", n)
        self.generic_visit(n)

    def visit_Global(self, n):
        self.opaque.append("%s: global %s" % (self.where(n), ",".join(n.names)))

    visit_Nonlocal = visit_Global

    def visit_Call(self, n):
        f = n.func
        if isinstance(f, ast.Name) and f.id in ("setattr", "delattr") and n.args:
            a0 = n.args[0]
            if not (isinstance(a0, ast.Name) and a0.id == "self"):
                self.opaque.append("%s: %s on %s" % (self.where(n), f.id, ast.unparse(a0)))
        if isinstance(f, ast.Name) and f.id in ("globals", "vars", "exec", "eval"):
            self.opaque.append("%s: call of %s" % (self.where(n), f.id))
        if isinstance(f, ast.Attribute) and f.attr in MUTATING_METHODS | {"set_name"}:
            root = f.value
            while isinstance(root, (ast.Attribute, ast.Subscript)):
                root = root.value
            if isinstance(root, ast.Name) and root.id in self.module_objects:
                self.object_writes.append("%s: %s.%s(..)" % (self.where(n), ast.unparse(f.value), f.attr))
        if isinstance(f, ast.Attribute) and f.attr in MUTATING_METHODS:
            recv = f.value
            while isinstance(recv, ast.Subscript):
                recv = recv.value
            ca = self.class_attr(recv)
            if ca:
                self.mutations.append((ca[0], ca[1], f.attr, self.where(n)))
            elif self.indirect_class(recv):
                self.opaque.append("%s: %s through %s" % (self.where(n), f.attr, ast.unparse(recv)))
            elif isinstance(recv, ast.Name) and recv.id in self.containers:
                self.container_writes.append((self.containers[recv.id], recv.id, f.attr, self.where(n)))
            elif isinstance(recv, ast.Attribute) and isinstance(recv.value, ast.Name) and recv.value.id == "self" \
                    and recv.attr in self.class_registries and self.owner_has(recv.attr):
                self.opaque.append("%s: class-level registry %s mutated through self (.%s)" %
                                   (self.where(n), recv.attr, f.attr))
        self.generic_visit(n)


def collect():
    status = {}
    trees = []
    for rel, p in sources():
        try:
            trees.append((rel, ast.parse(open(p).read(), filename=p)))
        except SyntaxError as e:
            status["parse:" + rel] = "syntax error: %s" % e
    # ---- classes, class-level attributes
    classes = {}
    class_attrs = []
    for rel, tree in trees:
        for n in ast.walk(tree):
            if not isinstance(n, ast.ClassDef):
                continue
            info = dict(file=rel, bases=[b.id for b in n.bases if isinstance(b, ast.Name)], registries=set(),
                        instance_attrs=set())
            classes[n.name] = info
            for s in n.body:
                if is_doc(s) or isinstance(s, (ast.FunctionDef, ast.Pass)):
                    continue
                item = "class-body:%s:%s:%d" % (rel, n.name, s.lineno)
                if isinstance(s, ast.Assign) and len(s.targets) == 1 and isinstance(s.targets[0], ast.Name):
                    iv = init_value(s.value)
                    if iv is None:
                        status[item] = "%s:%d: class-level value outside the grammar: %s" % (rel, s.lineno,
                                                                                           ast.unparse(s)[:80])
                        continue
                    class_attrs.append((n.name, s.targets[0].id, iv, "%s:%d" % (rel, s.lineno)))
                    if iv.startswith("IEmpty"):
                        info["registries"].add(s.targets[0].id)
                    status[item] = True
                else:
                    status[item] = "%s:%d: class-level statement outside the grammar: %s" % (
                        rel, s.lineno, ast.unparse(s)[:80])
            for f in n.body:
                if isinstance(f, ast.FunctionDef) and f.name == "__init__":
                    for a in ast.walk(f):
                        if isinstance(a, ast.Assign):
                            for t in a.targets:
                                if isinstance(t, ast.Attribute) and isinstance(t.value, ast.Name) and t.value.id == "self":
                                    info["instance_attrs"].add(t.attr)
    class_registries = set(a for c in classes.values() for a in c["registries"])
    # ---- module level
    module_objects, module_containers = [], []
    containers = {}
    for rel, tree in trees:
        for s in tree.body:
            if is_doc(s) or isinstance(s, (ast.Import, ast.ImportFrom, ast.ClassDef, ast.FunctionDef)):
                continue
            item = "module-body:%s:%d" % (rel, s.lineno)
            if isinstance(s, ast.Assign) and len(s.targets) == 1 and isinstance(s.targets[0], ast.Name):
                name, v = s.targets[0].id, s.value
                if name == "__all__" and isinstance(v, ast.List) and all(isinstance(e, ast.Constant) for e in v.elts):
                    status[item] = True
                    continue
                if isinstance(v, ast.Call) and isinstance(v.func, ast.Name) and v.func.id in classes:
                    module_objects.append((rel, name, v.func.id))
                    status[item] = True
                    continue
                if isinstance(v, (ast.Dict, ast.List, ast.Set)):
                    kind = type(v).__name__.lower()
                    module_containers.append((rel, name, kind))
                    containers[name] = rel
                    status[item] = True
                    continue
                if isinstance(v, ast.Constant):
                    status[item] = True
                    continue
            status[item] = "%s:%d: module-level statement outside the grammar: %s" % (rel, s.lineno,
                                                                                    ast.unparse(s)[:80])
    # ---- mutations
    mutations, container_writes, opaque, object_writes = [], [], [], []
    for rel, tree in trees:
        sc = Scan(rel, classes, containers, class_registries, [n for _, n, _ in module_objects])
        sc.visit(tree)
        mutations += sc.mutations
        container_writes += sc.container_writes
        opaque += sc.opaque
        object_writes += sc.object_writes
    # ---- uses (reads) of the module-level DSL objects inside functions: they may only START an accumulation or be an
    # operand of + / -; handing one out (returned, stored in a sample / container / attribute, passed to a call) would let
    # its never-reset value cache reach user-visible results
    object_uses = []
    mo = set(n for _, n, _ in module_objects)
    for rel, tree in trees:
        for fn in [x for x in ast.walk(tree) if isinstance(x, (ast.FunctionDef, ast.AsyncFunctionDef))]:
            loads = [x for x in ast.walk(fn) if isinstance(x, ast.Name) and x.id in mo and isinstance(x.ctx, ast.Load)]
            if not loads:
                continue
            parents = {}
            for par in ast.walk(fn):
                for ch in ast.iter_child_nodes(par):
                    parents[id(ch)] = par
            for ld in loads:
                par = parents.get(id(ld))
                kind = "escapes: " + ast.unparse(par)[:60] if par is not None else "escapes"
                if isinstance(par, ast.BinOp) and isinstance(par.op, (ast.Add, ast.Sub)):
                    kind = "operand"
                elif isinstance(par, ast.Assign) and len(par.targets) == 1 and isinstance(par.targets[0], ast.Name) \
                        and par.value is ld:
                    alias = par.targets[0].id
                    ok = True
                    for x in ast.walk(fn):
                        if isinstance(x, ast.Name) and x.id == alias and x is not par.targets[0]:
                            px = parents.get(id(x))
                            if isinstance(px, ast.AugAssign) and px.target is x and isinstance(px.op, (ast.Add, ast.Sub)):
                                continue
                            if isinstance(px, ast.BinOp) and isinstance(px.op, (ast.Add, ast.Sub)):
                                continue
                            if isinstance(px, ast.Assign) and len(px.targets) == 1 and px.targets[0] is x \
                                    and isinstance(px.value, ast.BinOp):
                                continue
                            ok = False
                            kind = "escapes through %s: %s" % (alias, ast.unparse(px)[:50] if px is not None else "?")
                    if ok:
                        kind = "accumulator"
                object_uses.append((rel, fn.name, ld.id, kind))
    # ---- _reset_classes / PEP.__init__
    reset_fields, init_first, reads_before = [], False, []
    pep = None
    for rel, tree in trees:
        if rel == "pep.py":
            for n in tree.body:
                if isinstance(n, ast.ClassDef) and n.name == "PEP":
                    pep = n
    if pep is None:
        status["reset"] = "class PEP not found in pep.py"
        status["init"] = "class PEP not found in pep.py"
    else:
        fns = {f.name: f for f in pep.body if isinstance(f, ast.FunctionDef)}
        rc = fns.get("_reset_classes")
        if rc is None:
            status["reset"] = "PEP._reset_classes not found"
        else:
            ok = True
            for s in rc.body:
                if is_doc(s):
                    continue
                t = s.targets[0] if isinstance(s, ast.Assign) and len(s.targets) == 1 else None
                iv = init_value(s.value) if t is not None else None
                if t is not None and isinstance(t, ast.Attribute) and isinstance(t.value, ast.Name) \
                        and t.value.id in classes and iv is not None:
                    reset_fields.append((t.value.id, t.attr, iv))
                else:
                    ok = False
                    status["reset"] = "pep.py:%d: statement of _reset_classes outside the grammar: %s" % (
                        s.lineno, ast.unparse(s)[:80])
                    break
            if rc.args.args and rc.args.args[0].arg in ("self", "cls") and ok:
                pass
            if ok:
                status["reset"] = True
            else:
                reset_fields = []
        init = fns.get("__init__")
        if init is None:
            status["init"] = "PEP.__init__ not found"
        else:
            body = [s for s in init.body if not is_doc(s)]

            def is_reset_call(s):
                return (isinstance(s, ast.Expr) and isinstance(s.value, ast.Call) and not s.value.args
                        and not s.value.keywords and isinstance(s.value.func, ast.Attribute)
                        and s.value.func.attr == "_reset_classes" and isinstance(s.value.func.value, ast.Name)
                        and s.value.func.value.id in ("self", "PEP"))
            idx = [i for i, s in enumerate(body) if is_reset_call(s)]
            init_first = bool(idx) and idx[0] == 0
            if idx:
                for s in body[:idx[0]]:
                    reads_before.append("pep.py:%d: %s" % (s.lineno, ast.unparse(s)[:60]))
            # the call must be unconditional: a top-level statement of __init__
            status["init"] = True if idx else "PEP.__init__ never calls self._reset_classes() at top level"
    return dict(status=status, class_attrs=class_attrs, mutations=mutations, module_objects=module_objects,
                module_containers=module_containers, container_writes=container_writes, opaque=opaque,
                object_writes=object_writes, object_uses=object_uses,
                reset_fields=reset_fields, init_first=init_first, reads_before=reads_before,
                n_files=len(trees), n_classes=len(classes))


def translate():
    c = collect()
    L = []
    L.append("(** GENERATED by translator/tr_globals.py from %d modules (%d classes) of PEPit -- do not edit. *)"
             % (c["n_files"], c["n_classes"]))
    L.append("From Coq Require Import List String ZArith Bool.")
    L.append("From PV Require Import Model.Reset.")
    L.append("Import ListNotations.")
    L.append("Open Scope string_scope.")
    L.append("")

    def lst(name, ty, items, doc):
        L.append("(** %s *)" % doc)
        if not items:
            L.append("Definition %s : list %s := []." % (name, ty))
        else:
            L.append("Definition %s : list %s := [\n  %s\n]." % (name, ty, ";\n  ".join(items)))
        L.append("")

    lst("class_attrs", "(string * string * ginit)",
        ["(%s, %s, %s)" % (cstr(k), cstr(a), iv) for k, a, iv, _ in c["class_attrs"]],
        "every class-level attribute with its initial value (class, attribute, value)")
    lst("mutations", "(string * string * string)",
        ["(%s, %s, %s)" % (cstr(k), cstr(a), cstr(op)) for k, a, op, _ in c["mutations"]],
        "every write to class state `Class.attr <op>` found in the sources")
    import re as _re
    lst("mutation_sites", "string",
        [cstr("%s.%s %s @ %s" % (m[0], m[1], m[2], _re.sub(r":\d+\(", "(", m[3]))) for m in c["mutations"]],
        "where those writes are")
    lst("module_objects", "(string * string * string)",
        ["(%s, %s, %s)" % (cstr(m), cstr(n), cstr(k)) for m, n, k in c["module_objects"]],
        "module-level DSL objects (module, name, class): shared by every PEP of the process, never reset")
    lst("module_containers", "(string * string * string)",
        ["(%s, %s, %s)" % (cstr(m), cstr(n), cstr(k)) for m, n, k in c["module_containers"]],
        "module-level containers (module, name, kind)")
    lst("container_writes", "(string * string * string)",
        ["(%s, %s, %s)" % (cstr(m), cstr(n), cstr(op)) for m, n, op, _ in c["container_writes"]],
        "writes into a module-level container from PEPit's own code")
    lst("module_object_writes", "string", [cstr(o) for o in c["object_writes"]],
        "writes to attributes / dictionaries of the module-level DSL objects from PEPit's own code (must be empty)")
    lst("module_object_uses", "(string * string * string * string)",
        ["(%s, %s, %s, %s)" % (cstr(a), cstr(b), cstr(n_), cstr(k)) for a, b, n_, k in c["object_uses"]],
        "reads of the module-level DSL objects inside functions (module, function, object, how it is used)")
    lst("opaque_writes", "string", [cstr(o) for o in c["opaque"]],
        "writes to class state that cannot be attributed statically (must be empty)")
    lst("reset_fields", "(string * string * ginit)",
        ["(%s, %s, %s)" % (cstr(k), cstr(a), iv) for k, a, iv in c["reset_fields"]],
        "assignments of PEP._reset_classes, in source order")
    L.append("(** PEP.__init__: is `self._reset_classes()` its first statement? *)")
    L.append("Definition init_resets_first : bool := %s." % ("true" if c["init_first"] else "false"))
    lst("statements_before_reset", "string", [cstr(o) for o in c["reads_before"]],
        "statements of PEP.__init__ that precede the reset call")
    st = dict(c["status"])
    return OUTPUT, "\n".join(L) + "\n", st


if __name__ == "__main__":
    fn, text, st = translate()
    print(text)
    for k, v in st.items():
        if v is not True:
            print("ERR", k, v)
