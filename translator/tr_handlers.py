"""tr_handlers — exception contract of the accessors and of solve() -> coq/Gen/Handlers.v  (property C16).

(1) every method named eval / eval_dual of a class defined under PEPit/ (outside examples/) must have one of the
    three shapes below; it is emitted as a term of Model.Accessors.acc_shape:

    A  leaf-or-fold  (Point.eval, Expression.eval)
         if self._value is None:
             if self._is_leaf: raise E("...")
             else: <fold>; self._value = value
         return self._value
       <fold> ::= value = <init>; for .. in self.decomposition_dict.items(): <branches>; [<trailing>]
       points:  `value = np.zeros(Point.counter)` with body `value += weight * k.eval()`                       (BAny)
             or `value = 0` with body `value = value + weight * k.eval()` and the optional <trailing>
                `if len(self.decomposition_dict) == 0: value = np.zeros(Point.counter)`                         (BSum b)
                (the accumulator is the local `value`; `self._value` is written by the LAST statement only)
       every branch that handles a non-constant key must add `weight * <key>.eval()` (points) /
       `weight * key.eval()`, `weight * np.dot(point1.eval(), point2.eval())` (expressions) unconditionally
       (no try, no early return, no `continue`); `assert k.get_is_leaf()` lines and the constant branch
       `value += weight` are allowed; the final else raises E2
    B  try-inner     (Constraint.eval, PSDMatrix.eval)
         if self._value is None:
             try: self._value = <expression over .eval() of the components>
             except <matcher>: raise E("...")
         return self._value
       matcher ::= Name (a class)  |  Call (an INSTANCE: Python raises TypeError while matching)  |  absent (bare)
                 | tuple of Names
    C  dual field    (eval_dual)
         if self._dual_variable_value is None: raise E("...")
         return self._dual_variable_value

(2) pep.py, _solve_with_wrapper: the top-level statements after the first `.. = wrapper.solve(..)` as a plan
    (Model.Accessors.pstep), the guard `if wc_value is None: [if verbose: print] return wc_value` included;
    the functions that assign `_value` / `_dual_variable_value` of DSL objects, and who calls them.
(3) option checks: accepted literals of `return_primal_or_dual` and of `dimension_reduction_heuristic`,
    the exception of the else branch, and whether the check sits before or after the first solver call.
Fail-closed: a method outside these shapes is an error item and no definition is emitted for it.
"""
import ast
import glob
import os

REPO = os.environ.get("PEPIT_REPO", "/repo")
OUTPUT = "Handlers.v"
KNOWN_EXN = {"ValueError", "TypeError", "AssertionError", "RuntimeError", "KeyError", "AttributeError",
             "NotImplementedError", "Exception", "BaseException", "IndexError", "ArithmeticError",
             "ZeroDivisionError"}


class Bad(Exception):
    pass


def cstr(s):
    return '"' + str(s).replace('"', '""') + '"'


def exn_term(name):
    if name in ("ValueError", "TypeError", "AssertionError", "RuntimeError", "KeyError", "AttributeError",
                "Exception"):
        return name
    return "(OtherExn %s)" % cstr(name)


def is_doc(s):
    return isinstance(s, ast.Expr) and isinstance(s.value, ast.Constant) and isinstance(s.value.value, str)


def body_of(fn):
    return [s for s in fn.body if not is_doc(s)]


def self_attr(n, attr):
    return isinstance(n, ast.Attribute) and n.attr == attr and isinstance(n.value, ast.Name) and n.value.id == "self"


def is_none_test(test, attr):
    return (isinstance(test, ast.Compare) and len(test.ops) == 1 and isinstance(test.ops[0], ast.Is)
            and self_attr(test.left, attr) and isinstance(test.comparators[0], ast.Constant)
            and test.comparators[0].value is None)


def raised(stmt):
    """`raise E("...")` / `raise E` -> "E" """
    if not isinstance(stmt, ast.Raise) or stmt.exc is None or stmt.cause is not None:
        raise Bad("line %d: expected `raise <Class>(...)`" % stmt.lineno)
    e = stmt.exc
    if isinstance(e, ast.Call) and isinstance(e.func, ast.Name):
        return e.func.id
    if isinstance(e, ast.Name):
        return e.id
    raise Bad("line %d: raise of something that is not a class name" % stmt.lineno)


def is_eval_call(n, of=None):
    return (isinstance(n, ast.Call) and isinstance(n.func, ast.Attribute) and n.func.attr == "eval" and not n.args
            and not n.keywords and (of is None or (isinstance(n.func.value, ast.Name) and n.func.value.id == of)))


# names of the fold's two locals (bound by fold_shape from the source: any identifiers are accepted, as long as the
# accumulator is a plain local that is distinct from `self` and is the only thing stored into self._value at the end)
ACC, WGT = "value", "weight"


def weight_times(n, pred):
    """`weight * X` with pred(X)"""
    return (isinstance(n, ast.BinOp) and isinstance(n.op, ast.Mult) and isinstance(n.left, ast.Name)
            and n.left.id == WGT and pred(n.right))


def value_plus(s, pred):
    return (isinstance(s, ast.AugAssign) and isinstance(s.op, ast.Add) and isinstance(s.target, ast.Name)
            and s.target.id == ACC and pred(s.value))


def is_leaf_assert(s):
    return (isinstance(s, ast.Assert) and isinstance(s.test, ast.Call) and isinstance(s.test.func, ast.Attribute)
            and s.test.func.attr == "get_is_leaf")


def value_rebind(s, pred):
    """`value = value + X` with pred(X)"""
    return (isinstance(s, ast.Assign) and len(s.targets) == 1 and isinstance(s.targets[0], ast.Name)
            and s.targets[0].id == ACC and isinstance(s.value, ast.BinOp) and isinstance(s.value.op, ast.Add)
            and isinstance(s.value.left, ast.Name) and s.value.left.id == ACC and pred(s.value.right))


def empty_is_null(s):
    """`if len(self.decomposition_dict) == 0: value = np.zeros(Point.counter)` -- re-binds the accumulator local only"""
    return (isinstance(s, ast.If) and not s.orelse and ast.unparse(s.test) == "len(self.decomposition_dict) == 0"
            and len(s.body) == 1 and isinstance(s.body[0], ast.Assign) and len(s.body[0].targets) == 1
            and isinstance(s.body[0].targets[0], ast.Name) and s.body[0].targets[0].id == ACC
            and ast.unparse(s.body[0].value) == "np.zeros(Point.counter)")


def fold_shape(stmts, cls):
    """the else-branch of shape A -> list of branch terms.
       `value = <init>`; `for <key>, weight in self.decomposition_dict.items(): <body>`; [<trailing>]; `self._value = value`
       the accumulator is the LOCAL `value` (anything that writes self._value before the last statement is rejected);
       <trailing> (points only, optional) ::= `if len(self.decomposition_dict) == 0: value = np.zeros(Point.counter)`"""
    if len(stmts) < 3:
        raise Bad("fold: expected `value = ..; for ..; self._value = value`")
    global ACC, WGT
    init, loop, trailing, store = stmts[0], stmts[1], stmts[2:-1], stmts[-1]
    if not (isinstance(init, ast.Assign) and len(init.targets) == 1 and isinstance(init.targets[0], ast.Name)
            and init.targets[0].id != "self"):
        raise Bad("fold: line %d: expected `<accumulator> = <init>`" % init.lineno)
    ACC = init.targets[0].id
    if not (isinstance(store, ast.Assign) and len(store.targets) == 1 and self_attr(store.targets[0], "_value")
            and isinstance(store.value, ast.Name) and store.value.id == ACC):
        raise Bad("fold: line %d: expected `self._value = %s`" % (store.lineno, ACC))
    if not (isinstance(loop, ast.For) and not loop.orelse and ast.unparse(loop.iter) == "self.decomposition_dict.items()"
            and isinstance(loop.target, ast.Tuple) and len(loop.target.elts) == 2
            and all(isinstance(e, ast.Name) for e in loop.target.elts)
            and len({loop.target.elts[0].id, loop.target.elts[1].id, ACC, "self"}) == 4):
        raise Bad("fold: line %d: expected `for <key>, <weight> in self.decomposition_dict.items():`" % loop.lineno)
    WGT = loop.target.elts[1].id
    key = loop.target.elts[0].id
    body = loop.body
    term = lambda r: weight_times(r, lambda x: is_eval_call(x, key))
    # points, in place on a preallocated vector: value = np.zeros(Point.counter); value += weight * key.eval()
    if len(body) == 1 and value_plus(body[0], term):
        if trailing:
            raise Bad("fold: line %d: statement between the loop and `self._value = value`" % trailing[0].lineno)
        if ast.unparse(init.value) != "np.zeros(Point.counter)":
            raise Bad("fold: line %d: in-place fold must start from np.zeros(Point.counter)" % init.lineno)
        return ["BAny"]
    # points, by re-binding: value = 0; value = value + weight * key.eval(); optional null vector for the empty sum
    if len(body) == 1 and value_rebind(body[0], term):
        if not (isinstance(init.value, ast.Constant) and init.value.value == 0 and not isinstance(init.value.value, bool)):
            raise Bad("fold: line %d: re-binding fold must start from 0" % init.lineno)
        if len(trailing) > 1 or (trailing and not empty_is_null(trailing[0])):
            raise Bad("fold: line %d: trailing statement outside the grammar: %s" % (
                trailing[0].lineno, ast.unparse(trailing[0]).split("\n")[0][:60]))
        return ["BSum %s" % ("true" if trailing else "false")]
    if trailing:
        raise Bad("fold: line %d: statement between the loop and `self._value = value`" % trailing[0].lineno)
    # expressions: if type(key) == Expression: .. elif type(key) == tuple: .. elif key == 1: .. else: raise
    if len(body) != 1 or not isinstance(body[0], ast.If):
        raise Bad("fold: line %d: loop body outside the grammar" % loop.lineno)
    branches = []
    node = body[0]
    while True:
        test = ast.unparse(node.test)
        stm = [s for s in node.body if not is_leaf_assert(s)]
        n_assert = len(node.body) - len(stm)
        if test == "type(%s) == Expression" % key:
            if not (len(stm) == 1 and value_plus(stm[0], lambda r: weight_times(r, lambda x: is_eval_call(x, key)))):
                raise Bad("fold: line %d: leaf-expression branch must be `value += weight * %s.eval()`" % (node.lineno, key))
            branches.append("BLeafExpr %s" % ("true" if n_assert >= 1 else "false"))
        elif test == "type(%s) == tuple" % key:
            pq = None
            if (len(stm) == 2 and isinstance(stm[0], ast.Assign) and len(stm[0].targets) == 1
                    and isinstance(stm[0].targets[0], ast.Tuple) and len(stm[0].targets[0].elts) == 2
                    and all(isinstance(e, ast.Name) for e in stm[0].targets[0].elts)
                    and isinstance(stm[0].value, ast.Name) and stm[0].value.id == key):
                pq = [e.id for e in stm[0].targets[0].elts]
                if len(set(pq + [key, ACC, WGT, "self"])) != 6:
                    pq = None
            if not (pq and value_plus(
                    stm[1], lambda r: weight_times(
                        r, lambda x: isinstance(x, ast.Call) and ast.unparse(x.func) == "np.dot" and len(x.args) == 2
                        and is_eval_call(x.args[0], pq[0]) and is_eval_call(x.args[1], pq[1])))):
                raise Bad("fold: line %d: inner-product branch must be `value += weight * np.dot(point1.eval(), "
                          "point2.eval())`" % node.lineno)
            branches.append("BInner %s" % ("true" if n_assert >= 2 else "false"))
        elif test == "%s == 1" % key:
            if not (len(stm) == 1 and value_plus(stm[0], lambda r: isinstance(r, ast.Name) and r.id == WGT)):
                raise Bad("fold: line %d: constant branch must be `value += weight`" % node.lineno)
            branches.append("BConst")
        else:
            raise Bad("fold: line %d: branch test outside the grammar: %s" % (node.lineno, test))
        if len(node.orelse) == 1 and isinstance(node.orelse[0], ast.If):
            node = node.orelse[0]
            continue
        if len(node.orelse) == 1 and isinstance(node.orelse[0], ast.Raise):
            branches.append("BElseRaise %s" % exn_term(raised(node.orelse[0])))
            break
        raise Bad("fold: line %d: the chain must end with `else: raise <Class>(...)`" % node.lineno)
    return branches


def matcher_term(h):
    t = h.type
    if t is None:
        return "MBare"
    if isinstance(t, ast.Name):
        return "MClass %s" % exn_term(t.id)
    if isinstance(t, ast.Call) and isinstance(t.func, ast.Name):
        return "MInstance %s" % exn_term(t.func.id)
    if isinstance(t, ast.Tuple) and all(isinstance(e, ast.Name) for e in t.elts):
        return "MTuple [%s]" % "; ".join(exn_term(e.id) for e in t.elts)
    raise Bad("line %d: except matcher outside the grammar: %s" % (h.lineno, ast.unparse(t)[:40]))


def shape_of(fn, cls):
    b = body_of(fn)
    if len(b) != 2 or not isinstance(b[0], ast.If) or b[0].orelse or not isinstance(b[1], ast.Return):
        raise Bad("line %d: expected `if <field> is None: ...` followed by `return <field>`" % fn.lineno)
    guard, ret = b
    if fn.name == "eval_dual":
        if not (is_none_test(guard.test, "_dual_variable_value") and self_attr(ret.value, "_dual_variable_value")):
            raise Bad("line %d: eval_dual must test and return self._dual_variable_value" % fn.lineno)
        if len(guard.body) != 1:
            raise Bad("line %d: the unsolved branch must be a single raise" % guard.lineno)
        return "ADualField %s" % exn_term(raised(guard.body[0]))
    if not (is_none_test(guard.test, "_value") and self_attr(ret.value, "_value")):
        raise Bad("line %d: eval must test and return self._value" % fn.lineno)
    inner = guard.body
    if len(inner) == 1 and isinstance(inner[0], ast.If) and self_attr(inner[0].test, "_is_leaf"):
        leaf = inner[0]
        if len(leaf.body) != 1:
            raise Bad("line %d: the leaf branch must be a single raise" % leaf.lineno)
        e = raised(leaf.body[0])
        br = fold_shape(leaf.orelse, cls)
        return "ALeafOrFold %s [%s]" % (exn_term(e), "; ".join(br))
    if len(inner) == 1 and isinstance(inner[0], ast.Try):
        t = inner[0]
        if t.orelse or t.finalbody or len(t.handlers) != 1:
            raise Bad("line %d: try with else/finally or several handlers" % t.lineno)
        if not (len(t.body) == 1 and isinstance(t.body[0], ast.Assign) and len(t.body[0].targets) == 1
                and self_attr(t.body[0].targets[0], "_value")):
            raise Bad("line %d: the try body must be `self._value = ...`" % t.lineno)
        evals = [n for n in ast.walk(t.body[0].value) if is_eval_call(n)]
        if not evals:
            raise Bad("line %d: the cached value is not computed from the components' eval()" % t.lineno)
        for n in ast.walk(t.body[0].value):
            if isinstance(n, (ast.IfExp, ast.Lambda)) or (isinstance(n, ast.comprehension) and n.ifs):
                raise Bad("line %d: conditional evaluation of components" % t.lineno)
        h = t.handlers[0]
        if len(h.body) != 1:
            raise Bad("line %d: the handler must be a single raise" % h.lineno)
        return "ATryInner (%s) %s" % (matcher_term(h), exn_term(raised(h.body[0])))
    raise Bad("line %d: body of the `is None` branch outside the grammar" % guard.lineno)


# ------------------------------------------------------------------------------------------ solve()
def call_name(n):
    """`a.b.c(..)` -> 'a.b.c'"""
    if isinstance(n, ast.Call):
        try:
            return ast.unparse(n.func)
        except Exception:
            return None
    return None


def only_prints(body):
    from . import tr_guards
    return tr_guards.print_only(body) is None


def is_verbose_print_block(s):
    return isinstance(s, ast.If) and not s.orelse and ast.unparse(s.test) == "verbose" and only_prints(s.body)


def _eq_test(t, var):
    """`var == "lit"` -> lit"""
    if isinstance(t, ast.Compare) and len(t.ops) == 1 and isinstance(t.ops[0], ast.Eq) and isinstance(t.left, ast.Name) \
            and t.left.id == var and isinstance(t.comparators[0], ast.Constant) and isinstance(t.comparators[0].value, str):
        return t.comparators[0].value
    return None


def _ret_name(body, lineno):
    if len(body) == 1 and isinstance(body[0], ast.Return) and isinstance(body[0].value, ast.Name):
        return body[0].value.id
    raise Bad("line %d: a branch of the return switch must be a single `return <name>`" % lineno)


def return_switch(stmts, var):
    """the switch on the option `var` that ends a function, in either spelling
         if var == "a": return x  elif var == "b": return y  else: raise E(..)          (one statement)
         if var == "a": return x;  if var == "b": return y;  raise E(..)                (guards, then the raise)
       `stmts` must be exactly the statements of the switch (nothing after it).
       Returns ([(literal, returned name)], E)."""
    if not stmts:
        raise Bad("no return switch on %s" % var)
    cases = []
    if len(stmts) == 1:
        node = stmts[0]
        while True:
            lit = _eq_test(node.test, var) if isinstance(node, ast.If) else None
            if lit is None:
                raise Bad("line %d: return switch: test outside the grammar" % node.lineno)
            cases.append((lit, _ret_name(node.body, node.lineno)))
            if len(node.orelse) == 1 and isinstance(node.orelse[0], ast.If):
                node = node.orelse[0]
                continue
            if len(node.orelse) == 1 and isinstance(node.orelse[0], ast.Raise):
                return cases, raised(node.orelse[0])
            raise Bad("line %d: return switch: the chain must end with `else: raise <Class>(...)` "
                      "(a fall-through would return None)" % node.lineno)
    for st in stmts[:-1]:
        lit = _eq_test(st.test, var) if isinstance(st, ast.If) and not st.orelse else None
        if lit is None:
            raise Bad("line %d: return switch: expected `if %s == \"..\": return <name>` without else" % (st.lineno, var))
        cases.append((lit, _ret_name(st.body, st.lineno)))
    if not isinstance(stmts[-1], ast.Raise):
        raise Bad("line %d: return switch: the guards must be followed by `raise <Class>(...)` "
                  "(a fall-through would return None)" % stmts[-1].lineno)
    return cases, raised(stmts[-1])


def switch_start(body, var):
    """index of the first top-level statement that tests `var == ..`"""
    for i, st in enumerate(body):
        if isinstance(st, ast.If) and _eq_test(st.test, var) is not None:
            return i
    return None


def post_solve_plan(fn, writer_names=()):
    """top-level statements of _solve_with_wrapper from the first wrapper.solve on"""
    body = body_of(fn)
    idx = None
    for i, s in enumerate(body):
        if isinstance(s, ast.Assign) and call_name(s.value) == "wrapper.solve":
            idx = i
            break
    if idx is None:
        raise Bad("no top-level `... = wrapper.solve(**kwargs)` in _solve_with_wrapper")
    tgt = body[idx].targets[0]
    if not (isinstance(tgt, ast.Tuple) and len(tgt.elts) == 3 and isinstance(tgt.elts[2], ast.Name)):
        raise Bad("line %d: expected `<status>, <name>, <value> = wrapper.solve(..)`" % body[idx].lineno)
    val = tgt.elts[2].id                      # the solver's value (wc_value), bound from the source
    dual = None                               # the name bound to self.check_feasibility(..)
    # nothing before the solver call may write values / duals
    for s in body[:idx]:
        for n in ast.walk(s):
            cn = call_name(n)
            if cn and cn.split(".")[-1] in ("assign_dual_values", "_eval_points_and_function_values",
                                            "check_feasibility") + tuple(writer_names):
                raise Bad("line %d: %s is called before the solver" % (s.lineno, cn))
    plan = ["PSolve"]
    tail = body[idx + 1:]
    sw = switch_start(tail, "return_primal_or_dual")
    if sw is None:
        raise Bad("no `if return_primal_or_dual == ..` switch after the solver call")
    cases, exn = return_switch(tail[sw:], "return_primal_or_dual")
    for s in tail[:sw]:
        if is_verbose_print_block(s):
            plan.append("PPrint")
            continue
        if isinstance(s, ast.If) and ast.unparse(s.test) == "%s is None" % val and not s.orelse:
            rest = [x for x in s.body if not is_verbose_print_block(x)]
            if len(rest) == 1 and isinstance(rest[0], ast.Return) and ast.unparse(rest[0].value) == val:
                plan.append("PGuardNone")
                continue
            raise Bad("line %d: the `%s is None` branch must only print and `return %s`" % (s.lineno, val, val))
        calls = [call_name(n) for n in ast.walk(s) if isinstance(n, ast.Call)]
        calls = [c for c in calls if c]
        if isinstance(s, ast.Assign) and call_name(s.value) == "wrapper.assign_dual_values":
            plan.append("PAssignDuals")
        elif isinstance(s, ast.Assign) and call_name(s.value) == "wrapper.get_primal_variables":
            plan.append("PGetPrimal")
        elif isinstance(s, ast.If) and ast.unparse(s.test) == "dimension_reduction_heuristic":
            if any(c.split(".")[-1] in ("assign_dual_values", "_eval_points_and_function_values") for c in calls):
                raise Bad("line %d: the heuristic block assigns values" % s.lineno)
            plan.append("PHeuristic")
        elif isinstance(s, ast.Assign) and len(s.targets) == 1 and isinstance(s.targets[0], ast.Attribute) \
                and s.targets[0].attr in ("G_value", "F_value") and isinstance(s.value, ast.Name):
            plan.append("PStoreGF")
        elif isinstance(s, ast.Expr) and call_name(s.value) == "self._eval_points_and_function_values":
            plan.append("PEvalPoints")
        elif isinstance(s, ast.Assign) and call_name(s.value) == "self.check_feasibility" and len(s.targets) == 1 \
                and isinstance(s.targets[0], ast.Name):
            dual = s.targets[0].id
            plan.append("PCheckFeasibility")
        else:
            raise Bad("line %d: statement after the solver call outside the grammar: %s" %
                      (s.lineno, ast.unparse(s).split("\n")[0][:60]))
    # what each branch of the switch returns: "dual" the result of check_feasibility, "primal" the solver's value
    want = {"dual": dual, "primal": val}
    for lit, name in cases:
        if lit not in want:
            raise Bad("return switch: literal %r has no modelled meaning" % lit)
        if want[lit] is None or name != want[lit]:
            raise Bad("return switch: the %r branch returns `%s`, expected `%s`" % (lit, name, want[lit]))
    if len(set(l for l, _ in cases)) != len(cases):
        raise Bad("return switch: a literal is tested twice")
    plan.append("PReturnChoice")
    return plan


def option_chain(node, var):
    """if var == "a": .. elif var == "b" / var.startswith("c"): .. else: raise E  -> (accepted, prefixes, E)"""
    acc, pre = [], []
    while True:
        t = node.test
        if isinstance(t, ast.Compare) and len(t.ops) == 1 and isinstance(t.ops[0], ast.Eq) and isinstance(t.left, ast.Name) \
                and t.left.id == var and isinstance(t.comparators[0], ast.Constant) and isinstance(t.comparators[0].value, str):
            acc.append(t.comparators[0].value)
        elif isinstance(t, ast.Call) and ast.unparse(t.func) == var + ".startswith" and len(t.args) == 1 \
                and isinstance(t.args[0], ast.Constant):
            pre.append(t.args[0].value)
        else:
            raise Bad("line %d: option test outside the grammar: %s" % (node.lineno, ast.unparse(t)[:50]))
        if len(node.orelse) == 1 and isinstance(node.orelse[0], ast.If):
            node = node.orelse[0]
            continue
        if len(node.orelse) == 1 and isinstance(node.orelse[0], ast.Raise):
            return acc, pre, raised(node.orelse[0])
        raise Bad("line %d: option chain without a final `else: raise`" % node.lineno)


def step_dispatches(trees, status):
    """option dispatches of the primitive steps: a top-level `if <param> == "a": .. elif <param> == "b": .. else: raise E(..)`
    in a module-level function of PEPit/primitive_steps/*.py.  For each: accepted literals, E, and whether the dispatch is
    the first statement of the function that can return (no `return` anywhere before it).  Any other `raise ValueError`
    in those files is outside the grammar (error item)."""
    out = []
    for rel, tree in trees.items():
        if not rel.startswith("primitive_steps" + os.sep) or rel.endswith("__init__.py"):
            continue
        for fn in tree.body:
            if not isinstance(fn, ast.FunctionDef):
                continue
            params = [a.arg for a in fn.args.args + fn.args.kwonlyargs]
            body = body_of(fn)
            covered = set()
            for i, st in enumerate(body):
                if not isinstance(st, ast.If):
                    continue
                var = st.test.left.id if isinstance(st.test, ast.Compare) and isinstance(st.test.left, ast.Name) else None
                if var not in params or _eq_test(st.test, var) is None:
                    continue
                item = "step:%s:%s" % (fn.name, var)
                try:
                    acc, pre, exn = option_chain(st, var)
                    if pre:
                        raise Bad("prefix test in a step option")
                    early = [n.lineno for b in body[:i] for n in ast.walk(b) if isinstance(n, ast.Return)]
                    out.append((rel.replace(os.sep, "/"), "%s:%s" % (fn.name, var), acc, exn, not early))
                    for n in ast.walk(st):
                        if isinstance(n, ast.Raise):
                            covered.add(n)
                    status[item] = True
                except Bad as e:
                    status[item] = "%s: %s: %s" % (rel, fn.name, e)
            for n in ast.walk(fn):
                if isinstance(n, ast.Raise) and n not in covered and n.exc is not None:
                    name = n.exc.func.id if isinstance(n.exc, ast.Call) and isinstance(n.exc.func, ast.Name) else \
                        (n.exc.id if isinstance(n.exc, ast.Name) else "?")
                    if name == "ValueError":
                        status["step:%s:raise@%d" % (fn.name, n.lineno)] = \
                            "%s:%d: %s: `raise ValueError` outside a top-level option dispatch" % (rel, n.lineno, fn.name)
    return out


def translate():
    status = {}
    L = ["(** GENERATED by translator/tr_handlers.py -- exception contract of eval / eval_dual and of solve(). *)",
         "From Coq Require Import List String Bool.",
         "From PV Require Import Model.Accessors.",
         "Import ListNotations.",
         "Open Scope string_scope.", ""]
    root = os.path.join(REPO, "PEPit")
    names = []
    writers = []          # functions assigning _value / _dual_variable_value of another object
    callers = []          # (callee, caller) for the writer functions
    trees = {}
    for p in sorted(glob.glob(os.path.join(root, "**", "*.py"), recursive=True)):
        rel = os.path.relpath(p, root)
        if rel.split(os.sep)[0] == "examples":
            continue
        try:
            trees[rel] = ast.parse(open(p).read(), filename=p)
        except SyntaxError as e:
            status["parse:" + rel] = "syntax error %s" % e
    for rel, tree in trees.items():
        for c in ast.walk(tree):
            if not isinstance(c, ast.ClassDef):
                continue
            for fn in c.body:
                if not isinstance(fn, ast.FunctionDef):
                    continue
                if fn.name in ("eval", "eval_dual"):
                    item = "%s.%s" % (c.name, fn.name)
                    try:
                        term = shape_of(fn, c.name)
                        L.append("Definition h_%s_%s : acc_shape := %s." % (c.name, fn.name, term))
                        names.append((c.name, fn.name))
                        status[item] = True
                    except Bad as e:
                        status[item] = "%s: %s.%s: %s" % (rel, c.name, fn.name, e)
                # value writers
                for n in ast.walk(fn):
                    tg = []
                    if isinstance(n, ast.Assign):
                        tg = n.targets
                    elif isinstance(n, (ast.AugAssign, ast.AnnAssign)):
                        tg = [n.target]
                    for t in tg:
                        if isinstance(t, ast.Attribute) and t.attr in ("_value", "_dual_variable_value",
                                                                       "entries_dual_variable_value"):
                            mine = isinstance(t.value, ast.Name) and t.value.id == "self"
                            if mine and fn.name in ("__init__", "eval", "eval_dual"):
                                continue
                            w = (rel, "%s.%s" % (c.name, fn.name))
                            if w not in writers:
                                writers.append(w)
    wnames = set(w[1].split(".")[-1] for w in writers)
    for rel, tree in trees.items():
        for c in ast.walk(tree):
            if isinstance(c, ast.FunctionDef):
                for n in ast.walk(c):
                    cn = call_name(n)
                    if cn and cn.split(".")[-1] in wnames:
                        callers.append((cn.split(".")[-1], "%s:%s" % (rel, c.name)))
    L.append("")
    L.append("Definition handlers : list (string * string * acc_shape) := [\n  %s\n]." % ";\n  ".join(
        "(%s, %s, h_%s_%s)" % (cstr(a), cstr(b), a, b) for a, b in names))
    L.append("")
    L.append("(** functions that assign `_value` / `_dual_variable_value` / `entries_dual_variable_value` of DSL objects (constructors and the accessors' own caches excluded) *)")
    L.append("Definition value_writers : list (string * string) := [%s]." % "; ".join(
        "(%s, %s)" % (cstr(a), cstr(b)) for a, b in writers))
    L.append("(** every call site of such a function: (callee, file:caller) *)")
    L.append("Definition writer_callers : list (string * string) := [%s]." % "; ".join(
        "(%s, %s)" % (cstr(a), cstr(b)) for a, b in callers))
    L.append("")
    # ---- option dispatches of the primitive steps
    disp = step_dispatches(trees, status)
    L.append("(** option dispatches of the primitive steps: (file, function:parameter, accepted literals / exception of the else")
    L.append("    branch / [checked_before_solve] here means: no `return` precedes the dispatch in the function) *)")
    L.append("Definition step_option_dispatches : list (string * string * option_check) := [%s]." % ";\n  ".join(
        "(%s, %s, {| accepted := [%s] ; prefixes := [] ; rejected_with := %s ; checked_before_solve := %s |})" % (
            cstr(f), cstr(n), "; ".join(cstr(a) for a in acc), exn_term(e), "true" if first else "false")
        for f, n, acc, e, first in disp))
    L.append("")
    # ---- solve plan, options
    pep = trees.get("pep.py")
    sw = None
    if pep is not None:
        for c in ast.walk(pep):
            if isinstance(c, ast.ClassDef) and c.name == "PEP":
                for fn in c.body:
                    if isinstance(fn, ast.FunctionDef) and fn.name == "_solve_with_wrapper":
                        sw = fn
    if sw is None:
        status["plan"] = "PEP._solve_with_wrapper not found"
        status["options"] = "PEP._solve_with_wrapper not found"
    else:
        try:
            plan = post_solve_plan(sw, sorted(wnames))
            L.append("(** top-level statements of PEP._solve_with_wrapper from the first solver call on *)")
            L.append("Definition post_solve_plan : list pstep := [%s]." % "; ".join(plan))
            status["plan"] = True
        except Bad as e:
            status["plan"] = "pep.py: _solve_with_wrapper: %s" % e
        try:
            body = body_of(sw)
            solve_idx = [i for i, s in enumerate(body) if isinstance(s, ast.Assign) and call_name(s.value) == "wrapper.solve"]
            sw = switch_start(body, "return_primal_or_dual")
            if sw is None:
                raise Bad("no top-level switch on return_primal_or_dual")
            cases, exn = return_switch(body[sw:], "return_primal_or_dual")
            acc = [l for l, _ in cases]
            ret = [(sw, body[sw])]
            L.append("(** return_primal_or_dual: accepted literals, exception of the else branch, checked before the solver runs? *)")
            L.append("Definition opt_return : option_check := {| accepted := [%s] ; prefixes := [] ; rejected_with := %s ; "
                     "checked_before_solve := %s |}." % ("; ".join(cstr(a) for a in acc), exn_term(exn),
                                                         "true" if solve_idx and ret[0][0] < solve_idx[0] else "false"))
            heur = [(i, s) for i, s in enumerate(body) if isinstance(s, ast.If)
                    and ast.unparse(s.test) == "dimension_reduction_heuristic"]
            if len(heur) != 1:
                raise Bad("expected one top-level `if dimension_reduction_heuristic:` block")
            chains = [s for s in heur[0][1].body if isinstance(s, ast.If)
                      and "dimension_reduction_heuristic" in ast.unparse(s.test)]
            if len(chains) != 1:
                raise Bad("expected one option chain inside the heuristic block")
            acc, pre, exn = option_chain(chains[0], "dimension_reduction_heuristic")
            L.append("Definition opt_heuristic : option_check := {| accepted := [%s] ; prefixes := [%s] ; rejected_with := %s ; "
                     "checked_before_solve := %s |}." % ("; ".join(cstr(a) for a in acc), "; ".join(cstr(a) for a in pre),
                                                         exn_term(exn),
                                                         "true" if solve_idx and heur[0][0] < solve_idx[0] else "false"))
            status["options"] = True
        except Bad as e:
            status["options"] = "pep.py: _solve_with_wrapper: %s" % e
    return OUTPUT, "\n".join(L) + "\n", status


if __name__ == "__main__":
    fn, text, st = translate()
    print(text)
    for k, v in st.items():
        if v is not True:
            print("ERR", k, v)
